#!/venv/bin/python
"""Regenerate MANIFEST.json from the table below (keeps it schema-valid)."""
import json
import os

VERIF = os.path.dirname(os.path.dirname(os.path.abspath(__file__)))

# id -> (technique, level text, level note, design ref)
CHECKS = {
    "C16": ("runtime contract on batch_tasks over an exhaustive small grid + random large inputs",
            "Exploration, exhaustive on n_tasks<=140 x n_batches<=150 (quick) / 300x320 (thorough) x 4 start "
            "indices x with/without array: every call of the real function is judged by a partition contract. "
            "The function is pure and small, so a complete grid plus random large values is the right level.",
            "Trusts numpy slicing; inputs outside the grid are sampled only.", "6/C16"),
}

CHECKS.update({
    "C15": ("icontract postconditions on RVData.__init__/copy/__getitem__ over seeded hostile constructions",
            "Exploration: thousands of seeded constructions (unsorted/duplicated times, Time scales, unit pairs, covariances, "
            "NaN/inf placements, t_ref kinds) each judged by a contract that reconstructs the pairing from unique velocity tags.",
            "Trusts astropy's Time scale conversion and Quantity arithmetic; inputs are sampled, not enumerated.", "6/C15"),
    "C19": ("reference-definition oracle (longdouble) on every call of the diagnostics + metamorphic twins",
            "Exploration: each call of max_phase_gap/phase_coverage/periods_spanned/MAP_sample on seeded observation "
            "patterns is compared with an independently coded definition; permutation and time-reversal twins.",
            "Bin-edge cases within 1e-7 are excluded as borderline; tolerance 1e-9 on arcs.", "6/C19"),
})

CHECKS.update({
    "C17": ("icontract postconditions with OLD snapshots on JokerSamples methods + RV-curve comparison via get_orbit",
            "Exploration: seeded tables (sizes, signs of K, angle ranges/units, metadata) driven through every listed "
            "operation; each call judged by a postcondition, wrap_K/get_t0 additionally through the reconstructed RV curve.",
            "Trusts twobody's KeplerOrbit for the curve checks; tables are sampled.", "6/C17"),
})

CHECKS.update({
    "C01": ("reference-model oracle (50-digit mpmath closed form) on every value returned by marginal_ln_likelihood; "
            "ASan/UBSan replay of the workload on the rebuilt kernel (thorough)",
            "Exploration: thousands (quick) to ~3e5 (thorough) values over the product of data layouts, units, priors and "
            "nonlinear rows, each compared with the closed-form Gaussian marginal built from the generator's own record, "
            "within a tolerance measured from the round-off of the kernel's algorithm; K column cross-checked with an "
            "independent Kepler solver.",
            "Trusts mpmath, LAPACK in the tolerance estimate, twobody's solver for e<=0.99 (cross-checked); numerically "
            "singular designs (cond B > 1e14) are excluded and counted.", "6/C01"),
    "C08": ("contract on validate_prepare_data (unique velocity tags) + likelihood oracle on list/dict data",
            "Exploration: seeded survey layouts (interleaved, reversed, ties, dict key orders); each call judged by a "
            "contract that recovers every merged row's true survey, and end-to-end by the closed-form likelihood of the "
            "correctly labelled union.",
            "Unique velocity tags identify rows; for dict input any reference survey is accepted.", "6/C08"),
    "C12": ("model-based history monitor: real write/append/read/read_batch vs an in-memory model after every step",
            "Exploration: seeded histories of 3-12 file operations including incompatible appends; file content, "
            "refusal-without-change (sha256) and read_batch rows are checked after every step.",
            "Trusts h5py/pytables/astropy serialisation; histories are sampled.", "6/C12"),
})

CHECKS.update({
    "C02": ("offline history checker over a recording numpy Generator (uniform/choice draws) + tagged libraries; "
            "frequency test as backstop",
            "Exploration: hundreds (quick) to thousands (thorough) of real rejection_sample calls; the checker replays "
            "exp(ll-max)>u on the recorded uniforms and demands the returned rows, order, multiplicity and truncation; "
            "-inf/ties/flat profiles injected at the input of the real rejection code.",
            "Row identity through unique period tags (library in internal units); numpy's uniform/choice trusted.", "6/C02"),
    "C03": ("recorded multivariate_normal(mean, cov, size) arguments vs the oracle's exact (a, A); emitted columns vs "
            "recorded variates; moment test backstop; ASan/UBSan replay (thorough)",
            "Exploration: every accepted row of hundreds of sessions is judged on the arguments handed to numpy and on "
            "the emitted columns (bitwise), over priors with active K cap, jitter, offsets, trends, non-zero means, both paths.",
            "numpy's multivariate_normal is trusted to sample what it is given; ill-conditioned posteriors are counted, not judged.", "6/C03"),
    "C06": ("tag-based bookkeeping monitor on return_logprobs / return_all_logprobs outputs of both samplers",
            "Exploration: the option product of rejection_sample and iterative_rejection_sample on libraries with "
            "ln_prior_i = -(i+1/2) and unique period tags; every returned row must carry its own tag's values as plain floats.",
            "Row identity via tags; acceptance itself is judged by C02/C14.", "6/C06"),
    "C14": ("offline history checker of iterative_rejection_sample (recorded per-iteration uniforms, shuffled order, "
            "logged evaluation requests)",
            "Exploration: seeded sessions over library sizes, requests, batch growth, budgets, shuffling and both paths; "
            "return type, length, membership, last-iteration acceptance, budget, no repeats, must-raise.",
            "Library in internal units; any raise counts as a surfaced failure.", "6/C14"),
})

CHECKS.update({
    "C04": ("identity monitor across three code paths (kernel ln_likelihood, twobody reconstruction, recorded draw parameters) "
            "+ independent Kepler curve comparison",
            "Exploration: every returned row of seeded sessions is checked for ln L = ln p(y|theta,x) + ln p(x|theta) - ln N(x|a,A) "
            "with the third term from the *recorded* multivariate_normal arguments, for get_orbit's curve against an independent "
            "solver, and for samples.t_ref.",
            "Tolerance combines 1e-7 relative, cond(A) eps, the Kepler tolerance and the kernel's measured round-off.", "6/C04"),
    "C05": ("bitwise self-consistency across execution paths and call histories; random-operation hammer on one CJokerHelper "
            "vs fresh helpers; ASan+UBSan (quick, thorough) and valgrind memcheck (thorough) on the rebuilt kernel",
            "Exploration over (path, n_batches, pool, input kind, history) tuples and thousands of helper operations; equality is "
            "bitwise because all paths run the same kernel on the same doubles.",
            "Sanitizer silence is not memory safety; MultiPool scheduling is whatever the OS produces in the run.", "6/C05"),
    "C07": ("metamorphic twins (same physical problem, other units) run with equal seeds",
            "Exploration: ll_twin - ll_base = -n ln(ratio), equal accepted tags, physically equal posterior values for random "
            "subsets of {data, K prior, max_K, trend/offset priors, P unit, P0, library columns} re-expressed; includes a library "
            "file whose path is re-used with other column units.",
            "Base problems are moderately informative so 1-ulp conversion differences stay below tolerance.", "6/C07"),
    "C09": ("analytic log-density oracle on pm.logp grids + numerical normalisation; constant-offset monitor on ln_prior; KS tests on draws",
            "Exploration over prior configurations; deterministic monitors decide the log-densities exactly, KS tests (p>1e-9) are the "
            "backstop for the samplers.",
            "pymc's built-in distributions and numpy samplers are trusted; KS resolves CDF errors >~0.01.", "6/C09"),
    "C10": ("repeat-run digests (two global seeds, fresh interpreter with another PYTHONHASHSEED, SerialPool vs MultiPool), global "
            "RNG state guards, recorded spawn keys and variate uniqueness",
            "Exploration over random call sequences on one TheJoker; bitwise digests of every output column.",
            "Continuous variates coincide with probability 0.", "6/C10"),
    "C11": ("compiled evaluation of the pymc model built by setup_mcmc at physical parameter points vs independent Kepler model, "
            "Gaussian term and declared prior densities",
            "Exploration over unit systems, trends, offsets, jitter kinds; model_rv, ln_likelihood, log-density offset constancy, mcmc_init.",
            "The model is evaluated, not sampled.", "6/C11"),
    "C13": ("fault enumeration with sys.monitoring PY_START failpoints on thejoker's code objects and wrappers on the I/O / pool "
            "boundaries; postcondition monitors on TMPDIR, user file hash, descriptors, follow-up calls",
            "Fault enumeration: every (function, k-th invocation) reached by a clean run of each scenario gets one injected run "
            "(quick: first/last invocation).",
            "Faults are exceptions, not process kills; inside MultiPool workers only worker entry points are targeted.", "6/C13"),
    "C18": ("validity predicate evaluated next to the real constructors on systematic single/double corruptions",
            "Exploration, systematic over (poly_trend, n_offsets) x parameter x corruption kind; a silent success on an invalid "
            "specification (or a refusal of a valid one) is the violation.",
            "Any exception counts as a refusal.", "6/C18"),
})

NOT_YET = {
}


def main():
    props = [json.loads(l) for l in open(os.path.join(VERIF, "properties.jsonl"))]
    checks = []
    na = []
    for p in props:
        pid = p["id"]
        if pid in CHECKS:
            tech, text, note, ref = CHECKS[pid]
            level = "fault_enumeration" if pid == "C13" else "exploration"
            checks.append({
                "property_id": pid,
                "quick_cmd": "bin/check %s --tier quick" % pid,
                "thorough_cmd": "bin/check %s --tier thorough" % pid,
                "evidence_file": "evidence/%s.json" % pid,
                "replay_cmd_template": "bin/check %s --replay {path}" % pid,
                "engine": "tjverif",
                "level_claimed": {"category": level, "text": text, "design_ref": "DESIGN.md section " + ref},
                "level_note": note,
                "technique": tech,
            })
        else:
            na.append({"property_id": pid,
                       "reason": NOT_YET.get(pid, "monitor not built yet in this snapshot of /verif (planned, see DESIGN.md section 6); not claimed")})
    man = {
        "version": 1,
        "setup_cmd": "bin/setup",
        "hooks": {
            "guard": "THEJOKER_VERIF",
            "enable": ("no source hooks: checks stage a copy of /repo's working tree (python sources + kernel rebuilt "
                       "from the generated C) first on PYTHONPATH and attach monitors from outside"),
            "baseline_off_cmd": "cd /repo && /venv/bin/python -m pytest -q -p no:cacheprovider --timeout=900 --continue-on-collection-errors",
            "source_commits": [],
            "add_only": True,
        },
        "engines": [{"name": "tjverif", "path": "lib/tjverif",
                     "serves_properties": sorted(CHECKS),
                     "kind_free_text": "runtime monitoring: contracts, recording RNG, reference-model oracles, "
                                       "fault injection, ASan/UBSan/valgrind on the rebuilt kernel"}],
        "checks": checks,
        "not_applicable": na,
        "notes": "Runtime-monitoring family only. bin/check <ID> --tier quick|thorough; VERIF_SEED selects the workload seed.",
    }
    with open(os.path.join(VERIF, "MANIFEST.json"), "w") as f:
        json.dump(man, f, indent=1)
    print("wrote MANIFEST.json with %d checks, %d not claimed" % (len(checks), len(na)))


if __name__ == "__main__":
    main()
