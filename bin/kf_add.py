#!/venv/bin/python
"""kf_add.py <property> <key> <known|fixed> <commit-or--> <what...>"""
import json, sys, os
p = os.path.join(os.path.dirname(os.path.dirname(os.path.abspath(__file__))), "known_findings.json")
d = json.load(open(p))
prop, key, status, commit = sys.argv[1:5]
what = " ".join(sys.argv[5:])
d["findings"] = [f for f in d["findings"] if not (f["property"] == prop and f["key"] == key)]
e = {"property": prop, "key": key, "status": status, "what": what}
if status == "fixed":
    e["commit"] = commit
    e["line"] = "fixed: property=%s %s %s" % (prop, commit, what)
d["findings"].append(e)
d["findings"].sort(key=lambda f: (f["property"], f["key"]))
json.dump(d, open(p, "w"), indent=1)
print(e)
