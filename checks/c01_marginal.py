META = {
    "rule": ("seeded (data set, prior, nonlinear rows) problems: 1-40 epochs, 1-4 surveys (list/dict), RV units "
             "km/s|m/s|cm/s|pc/Myr, default/explicit t_ref, error scales 1e-3..1e3 km/s; priors over poly_trend 1-4 x "
             "offsets 0-3 x K prior {default, default with mu/max_K, custom Normal} x non-zero means x jitter; rows "
             "with P 1e-2..1e5 d, e in {0,(0,.99),.99}, angles in [-2pi,4pi], s in {0, ~sigma, >>sigma}; both in_memory "
             "paths. Each value returned by the real TheJoker.marginal_ln_likelihood is compared with the closed-form "
             "Gaussian marginal evaluated in 50-digit mpmath from the generator's own record, within the forward-error "
             "bound of the kernel's algorithm; the K column is cross-checked against an independent Kepler solver. "
             "distinct_nontrivial = distinct (poly_trend, n_offsets, K kind, means!=0, s>0, epochs bucket, unit, path, "
             "input form) classes in which at least one value was compared with tol < 1e-6."),
    "shards": {"quick": 4, "thorough": 16},
    "sanitizer_shards": 2,
    "variants": {"quick": ["plain"], "thorough": ["plain", "asan"]},
    "timeout": {"quick": 900, "thorough": 3600},
    "min_evaluations": {"quick": 1000, "thorough": 20000},
    "assumptions": ["mpmath arithmetic and numpy/LAPACK in the oracle's tolerance estimate are correct",
                    "twobody's C Kepler solver converges for e <= 0.99 (checked against O-kepler in the same run)",
                    "for dict input any consistent choice of reference survey / offset assignment is accepted",
                    "values whose forward-error bound exceeds 1e-3 are checked for finiteness only (counted)"],
}
# ---- END META ----
import itertools

import numpy as np

from tjverif import gen, oracle


def classify(lin, z, row, s_du, observed, ps, dspec, correct):
    """Name the mechanism of a mismatch by emulating known wrong computations."""
    keys = []
    K = ps["K"]
    emus = []
    ns = len(dspec["surveys"])
    lin_bads = []
    if ns > 1:
        # the code's own column assignment: list -> identity; dict -> rank of the key among sorted keys
        if dspec["form"] == "dict":
            ks = dspec["keys"]
            srt = sorted(ks)
            code_assign = tuple(srt.index(k) for k in ks)
        else:
            code_assign = tuple(range(ns))
        # the listed finding is about inputs whose concatenation order is not their time order: there the time sort moves
        # rows and the labels stay behind. On chronological input (ties included) the pinned code labels correctly, so a
        # mismatch there is never explained away by this emulation.
        labels_sorted = gen.merged(dspec)[3]
        if not bool(np.all(np.diff(labels_sorted) >= 0)):
            lin_bads = [gen.linear_problem(dspec, ps, code_assign, concat_labels=v)
                        for v in gen.tied_label_variants(dspec)]
            emus.append("survey-labels-not-time-sorted")
    # (emulations of the repaired kernel defects - jitter ignored, P0 unit, custom-K slot - were removed once
    #  they were fixed: a regression of those is an ordinary VIOLATION now)
    for r in range(1, len(emus) + 1):
        for combo in itertools.combinations(emus, r):
            vK = None
            if "K-prior-P0-unit" in combo:
                P0_wrong = gen.conv(K["P0"], K["P0_unit"], ps["P_unit"])      # number in the P-prior unit, used as days
                kp = lin.kprior
                vK = min(kp["sigma_K0"] ** 2 * (row["P"] / P0_wrong) ** (-2.0 / 3) / (1 - row["e"] ** 2), kp["max_K"] ** 2)
            uses = lin_bads if "survey-labels-not-time-sorted" in combo else [lin]
            for use in uses:
                ref = oracle.marginal(use, z, row["P"], row["e"], s_du, want_post=False, varK=vK,
                                      jitter="jitter-ignored" not in combo)
                # the emulation must reproduce the observed value within its own error bound, and that
                # bound must be far smaller than the distance to the correct value
                if np.isfinite(observed) and abs(observed - ref["ll"]) <= ref["tol"]:
                    return list(combo)
    return ["value-mismatch"]


_POOL = []


def _close_pool():
    for p_ in _POOL:
        try:
            p_.close()
        except Exception:
            pass


import atexit
atexit.register(_close_pool)


def run(ctx):
    from thejoker import TheJoker
    ncfg = ctx.n(36, 160)
    nrows_default = ctx.n(40, 120)
    if ctx.variant != "plain":
        ncfg = ctx.n(10, 40)
    for i in ctx.cases(ncfg):
        rng = ctx.rng(i)
        n_off = int(rng.choice([0, 1, 2, 3], p=[.45, .3, .15, .1]))
        if i % 18 == 11:
            # many surveys (two-digit offset names), chronological list so that the known label defect stays out
            n_off = int(rng.integers(10, 13))
            dspec = gen.gen_data_spec(rng, n_surveys=n_off + 1, n_epochs=n_off + 1 + int(rng.integers(0, 6)), layout="disjoint")
            dspec["form"], dspec["keys"] = "list", None
        elif i % 12 == 5:
            # one data set without a reference epoch (RVData(..., t_ref=False)): evaluated through the cache and worker processes
            n_off = 0
            dspec = gen.gen_data_spec(rng, n_surveys=1, t_ref_kind="none")
        else:
            dspec = gen.gen_data_spec(rng, n_surveys=n_off + 1)
        ps = gen.gen_prior_spec(rng, dspec["unit"], n_offsets=n_off)
        dspec["array_kind"] = ["plain", "plain", "plain", "bigendian", "readonly", "strided"][i % 6]
        nep = sum(len(s["t"]) for s in dspec["surveys"])
        nrows = nrows_default if nep <= 14 else max(6, nrows_default // 5)
        e_class = "extreme" if rng.random() < 0.08 else "valid"
        rows = gen.gen_rows(rng, nrows, dspec, e_class=e_class)
        du = dspec["unit"]
        s_du = np.array([gen.conv(x, "km/s", du) for x in rows["s_kms"]])
        in_memory = bool(rng.random() < 0.5) and not (i % 12 == 5)
        desc = dict(index=i, n_epochs=nep, n_surveys=n_off + 1, form=dspec["form"], unit=du, layout=dspec["layout"],
                    t_ref_kind=dspec["t_ref_kind"], poly_trend=ps["poly_trend"], K=ps["K"], P_unit=ps["P_unit"],
                    in_memory=in_memory, e_class=e_class, err_scale_kms=dspec["err_scale_kms"])
        try:
            data = gen.build_data(dspec)
            prior = gen.build_prior(ps)
            f32 = bool(rng.random() < 0.15)
            if f32:
                # a single-precision library (prior.sample(dtype=np.float32)): the oracle uses the float32-rounded values
                for kx in ("P", "e", "omega", "M0"):
                    rows[kx] = np.asarray(rows[kx], dtype=np.float32).astype(float)
                # keep e float32-representable and within the claimed range (float32(0.99) is slightly above 0.99)
                rows["e"] = np.where(rows["e"] > 0.99, float(np.nextafter(np.float32(0.99), np.float32(0))), rows["e"])
                s_du = np.asarray(s_du, dtype=np.float32).astype(float)
                rows["s_kms"] = np.array([gen.conv(x, du, "km/s") for x in s_du])
            desc["float32_samples"] = f32
            samples = gen.build_samples(rows, units={"s": du}, ln_prior=bool(rng.random() < 0.3),
                                        dtype=np.float32 if f32 else None)
            if f32:
                samples["s"] = np.asarray(s_du, dtype=np.float32) * gen.U(du)
            if rng.random() < 0.3:
                # a full posterior-like table (linear columns present): only P, e, omega, M0, s may be used
                samples["K"] = rng.normal(size=nrows) * gen.U(du)
                samples["v0"] = rng.normal(size=nrows) * gen.U(du)
            # rows exactly as the kernel sees them (internal units => no conversion)
            s_seen = samples["s"].to_value(gen.U(du))
            # the cache path also through worker processes (data and helper are pickled to them): always for data without a
            # reference epoch (t_ref=False), now and then otherwise
            use_mp = (not in_memory) and ctx.variant == "plain" and (dspec["t_ref_kind"] == "none" or rng.random() < 0.08)
            if use_mp and not _POOL:
                import schwimmbad
                _POOL.append(schwimmbad.MultiPool(processes=2))
            desc["multipool"] = bool(use_mp)
            joker = TheJoker(prior, rng=np.random.default_rng(1), **({"pool": _POOL[0]} if use_mp else {}))
            ll = np.asarray(joker.marginal_ln_likelihood(data, samples, in_memory=in_memory,
                                                         **({"n_batches": int(rng.choice([2, 3]))} if use_mp else {})), dtype=float)
            if use_mp:
                ctx.count("values_through_worker_processes", nrows)
        except Exception as e:
            ctx.exception(e, "marginal_ln_likelihood on valid input", dict(desc, dspec=dspec, ps=ps))
            continue
        if ll.shape != (nrows,):
            ctx.violation("wrong-shape", "returned shape %r for %d rows" % (ll.shape, nrows), desc)
            continue
        ns = n_off + 1
        assignments = [tuple(range(ns))]
        if dspec["form"] == "dict" and ns > 1:
            assignments = list(itertools.permutations(range(ns)))
        lins = {a: gen.linear_problem(dspec, ps, a) for a in assignments}
        chosen = None
        fails = []
        cls_base = (ps["poly_trend"], n_off, ps["K"]["kind"] + ("*" if ps["K"].get("custom") else ""),
                    any(abs(v["mu"]) > 0 for v in ps["v"]), "1" if nep == 1 else "2-3" if nep <= 3 else "4-14" if nep <= 14 else ">14",
                    du, in_memory, dspec["form"])
        for r in range(nrows):
            row = dict(P=float(rows["P"][r]), e=float(rows["e"][r]), omega=float(rows["omega"][r]),
                       M0=float(rows["M0"][r]), s=float(s_seen[r]))
            ctx.evaluations += 1
            lin0 = lins[assignments[0]]
            z = oracle.z_column(lin0, row["P"], row["e"], row["omega"], row["M0"], "c")
            if not np.isfinite(ll[r]):
                # numerically singular designs (cond*eps >= 1: e.g. a cubic trend about an epoch 1e4 d away)
                # are outside what "round-off" can mean in float64: excluded and counted, never judged
                cB, cA = oracle.conditions(lin0, z, row["P"], row["e"], row["s"])
                if cB > 1e14 or cA > 1e22:
                    ctx.count("excluded_numerically_singular")
                    ctx.borderline += 1
                    continue
                ctx.violation("non-finite", "marginal_ln_likelihood returned %r for finite valid input "
                              "(cond B %.3g, cond Ainv %.3g)" % (ll[r], cB, cA),
                              dict(desc, row=row, dspec=dspec, ps=ps))
                continue
            if e_class == "extreme":
                ctx.count("finite_only_extreme_e")
                continue
            # independent Kepler check of the column
            zr = oracle.z_column(lin0, row["P"], row["e"], row["omega"], row["M0"], "ref")
            kt = oracle.kepler_tol(lin0.t, row["P"], row["e"], lin0.t_ref)
            ctx.count("kepler_columns_checked")
            if np.max(np.abs(z - zr)) > kt:
                ctx.violation("kepler-column", "K column differs from the independent Kepler solution by %.3g (allowed %.3g)"
                              % (np.max(np.abs(z - zr)), kt), dict(desc, row=row))
            cands = [chosen] if chosen is not None else assignments
            best = None
            for a in cands:
                ref = oracle.marginal(lins[a], z, row["P"], row["e"], row["s"], want_post=False)
                dev = abs(ll[r] - ref["ll"])
                if best is None or dev / ref["tol"] < best[0]:
                    best = (dev / ref["tol"], a, ref, dev)
            ratio, a, ref, dev = best
            if ref["tol"] > 1e-3:
                ctx.count("finite_only_illconditioned")
                continue
            if ratio <= 1.0:
                if chosen is None and len(assignments) > 1 and ref["tol"] < 1e-6:
                    # lock the assignment only if it is unambiguous
                    others = [abs(ll[r] - oracle.marginal(lins[b], z, row["P"], row["e"], row["s"], want_post=False)["ll"])
                              for b in assignments if b != a]
                    if min(others) > 1e3 * ref["tol"]:
                        chosen = a
                ctx.maxi("dev_over_tol", ratio)
                if ll[r] == ref.get("emul"):
                    ctx.count("bit_identical_to_emulation_of_declared_algorithm")
                if ns == 1:
                    ctx.maxi("dev_over_tol_single_survey", ratio)
                ctx.maxi("abs_dev", dev)
                ctx.maxi("condB_log10", np.log10(ref["condB"]))
                if ref["tol"] < 1e-6:
                    ctx.count("compared_tight")
                    ctx.distinct.add(repr(cls_base + (row["s"] > 0,)))
                else:
                    ctx.count("compared_loose")
                if len(ctx.samples) < 2 or ctx.evaluations % 997 == 1:
                    ctx.sample(dict(desc, row=row, observed=float(ll[r]), reference=ref["ll"], tol=ref["tol"],
                                    assignment=list(a)))
            else:
                fails.append((r, row, z, ref, dev, a))
        # ---- the same rows handed over in other (equivalent) units: P in yr|h, angles in deg, s in another velocity
        # unit. The kernel then sees inputs that differ by an ulp, so the comparison is against the values just judged,
        # within the kernel tolerance inflated by the sensitivity to the phase (|M| / (1-e)^2).
        if not fails and e_class != "extreme" and ctx.variant == "plain":
            alt = {"P": str(rng.choice(["yr", "h"])), "omega": "deg", "M0": "deg",
                   "s": str(rng.choice([x for x in gen.VEL_UNITS if x != du]))}
            try:
                samples2 = gen.build_samples(rows, units=alt)
                im2 = bool(rng.random() < 0.5)
                if not im2 and i % 3 == 0:
                    # as files: ONE path, written first in the kernel's units (read once), then overwritten in the alternative
                    # units - what a pipeline that regenerates "prior_samples.hdf5" does
                    import os
                    fpath = os.path.join(ctx.tmpdir, "prior_samples.hdf5")
                    samples.write(fpath, overwrite=True)
                    first_read = np.asarray(joker.marginal_ln_likelihood(data, fpath), dtype=float)
                    if first_read.shape != ll.shape or first_read.tobytes() != ll.tobytes():
                        ctx.violation("file-path-values-differ", "the library passed as a file name gives other values than as an "
                                      "object (%d of %d differ)" % (int(np.sum(first_read != ll)) if first_read.shape == ll.shape else -1, nrows), desc)
                    samples2.write(fpath, overwrite=True)
                    ll2 = np.asarray(joker.marginal_ln_likelihood(data, fpath), dtype=float)
                    os.unlink(fpath)
                    ctx.count("alt_units_through_a_rewritten_file")
                else:
                    ll2 = np.asarray(joker.marginal_ln_likelihood(data, samples2, in_memory=im2), dtype=float)
                lin0 = lins[assignments[0]]
                for r in range(nrows):
                    if not np.isfinite(ll[r]):
                        continue
                    zc = oracle.z_column(lin0, rows["P"][r], rows["e"][r], rows["omega"][r], rows["M0"][r], "c")
                    t0 = oracle.marginal(lin0, zc, rows["P"][r], rows["e"][r], s_seen[r], want_post=False)["tol"]
                    Mmax = 2 * np.pi * np.max(np.abs(lin0.t - lin0.t_ref)) / rows["P"][r] + 10
                    tolu = 1e-8 * (1 + abs(ll[r])) + 4 * t0 * (1 + Mmax / (1 - rows["e"][r]) ** 2)
                    if tolu > 1e-4:
                        ctx.count("alt_units_too_sensitive")
                        continue
                    ctx.evaluations += 1
                    ctx.count("alt_units_compared")
                    ctx.distinct.add(repr(("alt-units", im2, du, alt["s"], alt["P"])))
                    if not abs(ll2[r] - ll[r]) <= tolu:
                        ctx.violation("sample-units-not-converted", "the same row given with P in %s, angles in deg, s in %s (%s) yields "
                                      "%.12g instead of %.12g (allowed %.3g)" % (alt["P"], alt["s"], "in memory" if im2 else "cache",
                                                                                ll2[r], ll[r], tolu),
                                      dict(desc, row=r, alt_units=alt, in_memory_alt=im2))
                        break
            except Exception as e:
                ctx.exception(e, "marginal_ln_likelihood with samples in other units", dict(desc, alt_units=alt))
        for r, row, z, ref, dev, a in fails[:6]:
            keys = classify(lins[a], z, row, row["s"], float(ll[r]), ps, dspec, ref["ll"])
            for key in keys:
                ctx.violation(key, "marginal_ln_likelihood=%.12g, closed form %.12g (|diff|=%.3g, allowed %.3g)"
                              % (ll[r], ref["ll"], dev, ref["tol"]),
                              dict(desc, row=row, observed=float(ll[r]), reference=ref["ll"], tol=ref["tol"],
                                   mechanisms=keys, n_failing_rows=len(fails), dspec=dspec, ps=ps))
