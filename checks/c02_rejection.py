META = {
    "rule": ("seeded rejection_sample sessions on tagged libraries (size 1-5000; likelihood profiles flat / moderate / "
             "sharp / single spike from real data designs, and ties / -inf-next-to-finite / exactly-flat profiles injected "
             "at the input of the real rejection code) x max_posterior_samples x n_prior_samples x n_linear_samples x "
             "randomize_prior_order x in-memory|cache x object|file x n_batches. The sampler's Generator is a recording "
             "subclass; an offline checker replays the rule exp(ll-max)>u on the recorded uniforms/choice and compares "
             "the returned rows (unique period tags, bitwise nonlinear columns), their order, multiplicity and "
             "truncation. Statistical backstop: acceptance frequencies of a fixed 12-row library over many seeds. "
             "distinct_nontrivial = distinct (profile, path, input kind, randomize, truncation kind, n_prior kind, "
             "n_linear, size bucket, accepted-count bucket) classes checked."),
    "shards": {"quick": 4, "thorough": 16},
    "timeout": {"quick": 900, "thorough": 3600},
    "min_evaluations": {"quick": 200, "thorough": 4000},
    "assumptions": ["the library is written in the kernel's internal units so that returned nonlinear columns can be compared bitwise",
                    "n_prior_samples / randomize_prior_order are exercised on the cache path only (documented as file options)",
                    "draws within 1e-13 of the acceptance ratio are borderline and excluded"],
}
# ---- END META ----
import numpy as np

from tjverif import recgen, session


one_session = session.one_session


def run(ctx):
    recgen.install_child_recording()
    session.Inject.install()
    n = ctx.n(110, 450)
    for i in ctx.cases(n):
        rng = ctx.rng(i)
        r = one_session(ctx, i, rng)
        if r is None:
            continue
        pb, opts, out, lls, events, ll_lib, bad, info, desc, inj_kind, trunc, as_file = r
        keys = [b[0] for b in bad]
        if "inconclusive-pattern" in keys:
            ctx.count("pattern_not_found")
            ctx.note("pattern not found: %s" % bad[0][1])
            continue
        if "borderline" in keys:
            ctx.borderline += 1
            continue
        ctx.evaluations += 1
        na = info.get("n_accept", 0)
        if desc.get("library_by_count"):
            ctx.count("sessions_with_library_requested_by_count")
        if desc.get("lib_units"):
            ctx.count("sessions_with_library_in_other_units")
        cls = (pb.profile, inj_kind, "mem" if opts["in_memory"] else "cache", "file" if as_file else "obj",
               bool(opts.get("randomize_prior_order")), trunc, "n_prior" in "".join(opts.keys()), opts["n_linear_samples"],
               "N1" if pb.N == 1 else "N<=30" if pb.N <= 30 else "N>30", "a1" if na == 1 else "a2-5" if na <= 5 else "a>5")
        ctx.distinct.add(repr(cls))
        ctx.count("accepted_rows_checked", na)
        ctx.count("uniforms_replayed", info.get("n_eval", 0))
        for key, msg in bad:
            ctx.violation(key, msg, dict(desc, n_accept=na))
        if i % 40 == 0:
            ctx.sample(dict(desc, n_eval=info.get("n_eval"), n_accept=na, accepted_library_rows=info["idx"][info["acc"]][:10],
                            returned_rows=len(out), u_head=info["u"][:4], ll_head=info["ll_eval"][:4]))
    # ---- statistical backstop: per-row acceptance frequency ~ L_i / L_max
    if ctx.replay is None:
        from thejoker import TheJoker
        rng = ctx.rng(999)
        pb = session.make_problem(rng, N=12, profile="moderate", n_offsets=0, poly_trend=1)
        ll = np.asarray(TheJoker(pb.prior).marginal_ln_likelihood(pb.data, pb.lib, in_memory=True), dtype=float)
        p = np.exp(ll - ll.max())
        runs = ctx.n(250, 1500)
        hits = np.zeros(12)
        for k in range(runs):
            j = TheJoker(pb.prior, rng=np.random.default_rng([ctx.seed, ctx.shard, k]))
            out = j.rejection_sample(pb.data, pb.lib, in_memory=True)
            tags = np.searchsorted(pb.tagP, np.asarray(out["P"].to_value("d")))
            hits[tags] += 1
        # exact binomial tails (a normal approximation is wrong for rows with runs * p << 1: one hit at p = 1e-4 is "6 sigma")
        from scipy import stats as _st
        tail = np.minimum(_st.binom.cdf(hits, runs, p), _st.binom.sf(hits - 1, runs, p))
        ctx.counters["frequency_runs"] = runs
        ctx.maxi("frequency_neglog10_tail", float(-np.log10(max(np.min(tail), 1e-300))))
        ctx.evaluations += 1
        ctx.distinct.add("frequency-test")
        if np.min(tail) < 1e-9:
            k_ = int(np.argmin(tail))
            ctx.violation("acceptance-frequency", "acceptance frequencies deviate from L_i/L_max: row %d accepted %d times in %d runs "
                          "at p = %.4g (binomial tail %.2g)" % (k_, hits[k_], runs, p[k_], tail[k_]), dict(p=p, hits=hits, runs=runs))

    # a monitor that could not recognise the recorded draw pattern has not judged that session: if that happens often the
    # verdict is "inconclusive", never "held"
    _skipped = ctx.counters.get("pattern_not_found", 0) + ctx.counters.get("sessions_without_row_identity", 0) \
        + ctx.counters.get("rejection_sessions_without_row_identity", 0) + ctx.counters.get("iterative_sessions_without_row_identity", 0)
    if ctx.replay is None and _skipped > 0.25 * (n):
        ctx.inconclusive = "%d of %d sessions could not be judged (draw pattern or row identity not recognised)" % (_skipped, n)
