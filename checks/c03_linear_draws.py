META = {
    "rule": ("seeded rejection_sample sessions (in-memory: the sampler's recording Generator; cache path: the per-task child "
             "generators are re-wrapped on the same bit generator, SerialPool) over data sets/priors as in C01 "
             "(poly_trend 1-3, offsets 0-2, default/custom K prior incl. active max_K cap, non-zero means, jitter 0 and >0, "
             "weak and strong data), n_linear_samples in {1,2,7}. For every accepted row the recorded "
             "multivariate_normal(mean, cov, size) call is compared with the oracle's exact conditional posterior (a, A) "
             "(50-digit mpmath, jitter-inflated C_s, declared mu/Lambda with the capped K variance), size with "
             "n_linear_samples, and the emitted linear columns (order, units) with the variates the generator returned. "
             "Statistical backstop: sample moments of 20000 draws against (a, A) where un-capped / un-jittered "
             "alternatives differ most. distinct_nontrivial = distinct (path, poly_trend, n_offsets, K kind, cap active?, "
             "s>0?, n_linear, means!=0) classes with at least one draw checked."),
    "shards": {"quick": 4, "thorough": 16},
    "sanitizer_shards": 2,
    "variants": {"quick": ["plain"], "thorough": ["plain", "asan"]},
    "timeout": {"quick": 900, "thorough": 3600},
    "min_evaluations": {"quick": 300, "thorough": 5000},
    "assumptions": ["numpy's multivariate_normal draws from the distribution it is given (only its arguments are judged)",
                    "rows whose posterior is too ill-conditioned to compare (tolerance > 1e-3 posterior sd) are counted, not judged",
                    "surveys are chronological lists so the known survey-label defect does not interfere"],
}
# ---- END META ----
import numpy as np

from tjverif import oracle, recgen, session


def run(ctx):
    from thejoker import TheJoker
    recgen.install_child_recording()
    session.Inject.install()
    n = ctx.n(60, 260) if ctx.variant == "plain" else ctx.n(15, 60)
    for i in ctx.cases(n):
        rng = ctx.rng(i)
        kk = str(rng.choice(["default", "default-custom", "normal"], p=[.35, .4, .25]))
        pkw = dict(kkind=kk, N=int(rng.choice([3, 10, 40, 150])), profile=str(rng.choice(["flat", "moderate", "sharp"])))
        if i % 12 == 7:
            # many surveys: two-digit offset names (dv0_10 sorts before dv0_2 as a string)
            pkw.update(n_offsets=int(rng.integers(10, 13)), N=int(rng.choice([3, 10])), profile="flat")
        try:
            r = session.one_session(ctx, i, rng, force=dict(n_linear_samples=int(rng.choice([1, 2, 7]))), problem_kw=pkw)
        except Exception as e:
            ctx.exception(e, "session", dict(index=i))
            continue
        if r is None:
            continue
        pb, opts, out, lls, events, ll_lib, bad, info, desc, inj_kind, trunc, as_file = r
        if any(b[0] in ("inconclusive-pattern", "borderline") for b in bad) or "row_tags" not in info:
            ctx.count("sessions_without_row_identity")
            continue
        nacc = len(info["acc"])
        if nacc > 40:
            # keep the oracle cost bounded: judge the first 40 accepted rows
            info = dict(info)
        bad3, st = session.check_linear_draws(pb, opts, out, info, events)
        if any(b[0] == "inconclusive-pattern" for b in bad3):
            ctx.count("pattern_not_found")
            ctx.note(bad3[0][1])
            continue
        ctx.evaluations += st.get("rows", 0)
        ctx.count("draw_calls_checked", st.get("draw_calls", 0))
        ctx.maxi("worst_ratio_to_tolerance", st.get("worst_ratio", 0.0))
        K = pb.ps["K"]
        cap_active = False
        if K["kind"] == "default":
            tags = info["idx"][info["acc"]]
            kp = pb.lin.kprior
            for t in tags[:20]:
                v = kp["sigma_K0"] ** 2 * (pb.tagP[t] / kp["P0_day"]) ** (-2 / 3) / (1 - pb.rows["e"][t] ** 2)
                cap_active |= bool(v > kp["max_K"] ** 2)
        s_pos = bool(np.any(pb.s_seen[info["idx"][info["acc"]]] > 0))
        ctx.distinct.add(repr(("mem" if opts["in_memory"] else "cache", pb.ps["poly_trend"], pb.ps["n_offsets"],
                               K["kind"] + ("*" if K.get("custom") else ""), cap_active, s_pos, opts["n_linear_samples"],
                               any(abs(v["mu"]) > 0 for v in pb.ps["v"]))))
        for key, msg in bad3:
            ctx.violation(key, msg, dict(desc, K=K, n_accept=nacc, cap_active=cap_active, jitter_positive=s_pos))
        if i % 25 == 0 and nacc:
            mv = [e for e in events if e["op"] == "multivariate_normal"]
            ctx.sample(dict(desc, n_accept=nacc, first_draw_mean=mv[0]["mean"], first_draw_cov_diag=np.diag(mv[0]["cov"]),
                            generator=mv[0]["gen"], cap_active=cap_active))
    # ---- draws on a real process pool: rows handled by different tasks must not share their variates
    if ctx.replay is None and ctx.variant == "plain":
        import schwimmbad
        mp = schwimmbad.MultiPool(processes=2)
        for c in range(ctx.n(2, 8)):
            rng = ctx.rng(7000 + c)
            pb = session.make_problem(rng, N=int(rng.choice([40, 120])), profile="flat", n_offsets=0,
                                      poly_trend=int(rng.choice([1, 2])), lib_units=None)
            nb = int(rng.choice([2, 4, 7]))
            nl = int(rng.choice([1, 2]))
            try:
                j = TheJoker(pb.prior, pool=mp, rng=np.random.default_rng([ctx.seed, ctx.shard, c]), tempfile_path=ctx.tmpdir)
                out = j.rejection_sample(pb.data, pb.lib, n_batches=nb, n_linear_samples=nl)
            except Exception as e:
                ctx.exception(e, "MultiPool session", dict(case=c))
                continue
            tg, okm = session.tags_of(pb, np.asarray(out["P"].to_value("d")))
            names = ["K", "v0"] + ["v%d" % k for k in range(1, pb.ps["poly_trend"])]
            import astropy.units as _u
            un = [session.gen.U(pb.du)] * 2 + [session.gen.U(pb.du) / _u.day ** k for k in range(1, pb.ps["poly_trend"])]
            X = np.stack([np.asarray(out[nm].to_value(u_)) for nm, u_ in zip(names, un)], axis=1)
            Z = []
            for r in range(len(out)):
                t_ = int(tg[r])
                z = oracle.z_column(pb.lin, pb.tagP[t_], pb.rows["e"][t_], pb.rows["omega"][t_], pb.rows["M0"][t_], "c")
                ref = oracle.marginal(pb.lin, z, pb.tagP[t_], pb.rows["e"][t_], pb.s_seen[t_], want_post=True)
                Lc = np.linalg.cholesky(ref["A"])
                Z.append(np.linalg.solve(Lc, X[r] - ref["a"]))
            Z = np.array(Z)
            # squared norms of the whitened draws are chi2: two rows with the same value (to 1e-9) share their variates
            q = np.sort(np.sum(Z ** 2, axis=1))
            ctx.evaluations += 1
            ctx.distinct.add(repr(("multipool-independence", nb, nl)))
            ctx.count("multipool_rows_compared", len(q))
            if len(q) > 1 and np.any(np.diff(q) < 1e-9 * (1 + q[1:])):
                ctx.violation("draws-shared-between-batches", "on MultiPool(2) with n_batches=%d, %d pairs of returned rows have identical "
                              "whitened linear-parameter draws: the batches did not get independent random streams"
                              % (nb, int(np.sum(np.diff(q) < 1e-9 * (1 + q[1:])))), dict(case=c, n_batches=nb, rows=len(q)))
        mp.close()
    # ---- statistical backstop on hand-picked contrasts
    if ctx.replay is None and ctx.variant == "plain":
        ncase = ctx.n(4, 8)
        for c in range(ncase):
            rng = ctx.rng(5000 + c)
            kind = ["cap", "correlated", "jitter", "means"][(c + ctx.shard) % 4]
            pb = session.make_problem(rng, N=1, profile="flat" if kind not in ("jitter", "correlated") else "moderate",
                                      n_offsets=0, poly_trend=2 if kind == "correlated" else 1,
                                      kkind="default-custom" if kind == "cap" else "normal")
            if kind == "cap":
                pb.ps["K"]["max_K"], pb.ps["K"]["max_K_unit"] = 2.0, "km/s"
                pb.ps["K"]["sigma_K0"] = 300.0 * oracle.np.float64(1.0) * (1.0 if pb.ps["K"]["unit"] == "km/s" else
                                                                          session.gen.conv(1, "km/s", pb.ps["K"]["unit"]))
            if kind == "jitter":
                pb.rows["s_kms"] = np.array([30.0 * pb.dspec["err_scale_kms"]])
            pb.prior = session.gen.build_prior(pb.ps)
            pb.lib = session.gen.build_samples(pb.rows, units={"s": pb.du}, ln_prior=True)
            pb.s_seen = pb.lib["s"].to_value(session.gen.U(pb.du))
            pb.lin = session.gen.linear_problem(pb.dspec, pb.ps)
            nd = 20000
            j = TheJoker(pb.prior, rng=np.random.default_rng([ctx.seed, ctx.shard, c]))
            in_mem = bool((c + ctx.shard) % 2 == 0) if kind == "correlated" else True
            out = j.rejection_sample(pb.data, pb.lib, n_linear_samples=nd, in_memory=in_mem)
            z = oracle.z_column(pb.lin, pb.tagP[0], pb.rows["e"][0], pb.rows["omega"][0], pb.rows["M0"][0], "c")
            ref = oracle.marginal(pb.lin, z, pb.tagP[0], pb.rows["e"][0], pb.s_seen[0], want_post=True)
            import astropy.units as u_
            cols = [out["K"].to_value(session.gen.U(pb.du))] + [out["v%d" % k_].to_value(session.gen.U(pb.du) / u_.day ** k_)
                                                                for k_ in range(pb.ps["poly_trend"])]
            X = np.stack(cols, axis=1)
            A_ = np.asarray(ref["A"], dtype=float)
            sd = np.sqrt(np.diag(A_))
            zmean = (X.mean(axis=0) - ref["a"]) / (sd / np.sqrt(nd))
            # every entry of the sample covariance against A (standard error of a Gaussian covariance estimate)
            S = np.cov(X, rowvar=False, ddof=1)
            se = np.sqrt((np.outer(np.diag(A_), np.diag(A_)) + A_ ** 2) / (nd - 1))
            zcov = (S - A_) / se
            ctx.evaluations += 1
            ctx.distinct.add("moments-" + kind + ("-mem" if in_mem else "-cache"))
            ctx.maxi("moments_abs_z", float(max(np.max(np.abs(zmean)), np.max(np.abs(zcov)))))
            if max(np.max(np.abs(zmean)), np.max(np.abs(zcov))) > 6.1:
                ctx.violation("draw-moments", "sample moments of %d draws deviate from N(a, A): z(mean)=%s z(cov)=%s [%s contrast, %s]"
                              % (nd, np.round(zmean, 2), np.round(zcov, 2).tolist(), kind, "in memory" if in_mem else "cache"),
                              dict(kind=kind, a=ref["a"], A=ref["A"], correlation=(A_ / np.outer(sd, sd)).tolist()))

    # a monitor that could not recognise the recorded draw pattern has not judged that session: if that happens often the
    # verdict is "inconclusive", never "held"
    _skipped = ctx.counters.get("pattern_not_found", 0) + ctx.counters.get("sessions_without_row_identity", 0) \
        + ctx.counters.get("rejection_sessions_without_row_identity", 0) + ctx.counters.get("iterative_sessions_without_row_identity", 0)
    if ctx.replay is None and _skipped > 0.25 * (n):
        ctx.inconclusive = "%d of %d sessions could not be judged (draw pattern or row identity not recognised)" % (_skipped, n)
