META = {
    "rule": ("seeded rejection_sample(return_logprobs=True) sessions (poly_trend 1-3, offsets 0-2, jitter 0 and >0, default and "
             "explicit t_ref incl. far from the data, both paths) plus hand-built rows. For every returned row (theta, x): "
             "(i) ln_likelihood == ln p(y|theta,x) + ln N(x|mu,Lambda(theta)) - ln N(x|a,A) where the first term comes from "
             "thejoker's own reconstruction (ln_unmarginalized_likelihood, or get_orbit + the row's dv0_k with offsets), the "
             "second from the declared prior and the third from the (mean, cov) *recorded* at the multivariate_normal call; "
             "(ii) get_orbit(i).radial_velocity(t) == K z(t) + sum v_j (t-t_ref)^j from an independent Kepler solver on the "
             "data epochs and on a dense grid; (iii) samples.t_ref == the data's reference epoch. "
             "distinct_nontrivial = distinct (poly_trend, n_offsets, s>0, t_ref kind, path, K kind) classes with rows checked."),
    "shards": {"quick": 4, "thorough": 16},
    "timeout": {"quick": 900, "thorough": 3600},
    "min_evaluations": {"quick": 300, "thorough": 6000},
    "assumptions": ["identity tolerance 1e-7 (1 + sum |terms|) + 256 eps cond(A) (q + L)", "e <= 0.9 in the generated rows",
                    "surveys are chronological lists (known survey-label defect kept out of this check)"],
}
# ---- END META ----
import numpy as np

from tjverif import gen, oracle, recgen, session


def run(ctx):
    import astropy.units as u
    from astropy.time import Time
    recgen.install_child_recording()
    session.Inject.install()
    n = ctx.n(60, 260)
    for i in ctx.cases(n):
        rng = ctx.rng(i)
        try:
            r = session.one_session(ctx, i, rng, return_logprobs=True, inject="none",
                                    force=dict(n_linear_samples=int(rng.choice([1, 2])), max_posterior_samples=25),
                                    problem_kw=dict(N=int(rng.choice([5, 30, 120])),
                                                    profile=str(rng.choice(["flat", "moderate", "sharp"]))))
        except Exception as e:
            ctx.exception(e, "session", dict(index=i))
            continue
        if r is None:
            continue
        pb, opts, out, lls, events, ll_lib, bad, info, desc, inj_kind, trunc, as_file = r
        if inj_kind != "none" or "row_tags" not in info or any(b[0] in ("inconclusive-pattern", "borderline") for b in bad):
            ctx.count("sessions_skipped")
            continue
        mv = [e for e in events if e["op"] == "multivariate_normal"]
        tags = info["idx"][info["acc"]]
        nlin = opts["n_linear_samples"]
        if len(mv) != len(tags) or len(out) != len(tags) * nlin:
            ctx.count("sessions_skipped")
            continue
        lin = pb.lin
        du = gen.U(pb.du)
        L = lin.L
        names = ["K", "v0"] + ["dv0_%d" % k for k in range(1, pb.ps["n_offsets"] + 1)] + \
                ["v%d" % j for j in range(1, pb.ps["poly_trend"])]
        units = [du] * (2 + pb.ps["n_offsets"]) + [du / u.day ** j for j in range(1, pb.ps["poly_trend"])]
        X = np.stack([out[nm].to_value(un) for nm, un in zip(names, units)], axis=1)
        desc.update(t_ref_kind=pb.dspec["t_ref_kind"], K=pb.ps["K"]["kind"])
        # (iii) reference epoch
        ctx.evaluations += 1
        if pb.dspec.get("t_ref_kind") == "none":
            # data built with t_ref=False carry no reference epoch: the samples must not invent one; without an epoch
            # twobody cannot rebuild the orbit (get_orbit fails loudly), so there is no reconstruction to compare
            if out.t_ref is not None:
                ctx.violation("samples-t_ref-wrong", "data have no reference epoch (t_ref=False) but samples.t_ref=%r" % (out.t_ref,), desc)
            ctx.count("sessions_without_reference_epoch")
            continue
        if out.t_ref is None or abs(float(out.t_ref.tcb.mjd) - lin.t_ref) > 1e-9:
            ctx.violation("samples-t_ref-wrong", "samples.t_ref=%r but the data's reference epoch is %.6f"
                          % (out.t_ref, lin.t_ref), desc)
        try:
            if pb.ps["n_offsets"] == 0:
                t1_all = np.asarray(out.ln_unmarginalized_likelihood(pb.data), dtype=float)
            else:
                t1_all = None
            lk = np.asarray(out["ln_likelihood"], dtype=float)
            tt = Time(lin.t, format="mjd", scale="tcb")
            grid = Time(lin.t_ref + np.linspace(-20, 60, 17) + rng.uniform(0, 1), format="mjd", scale="tcb")
            survey_of_row = gen.merged(pb.dspec)[3]
            for row in range(len(out)):
                k = row // nlin
                tag = int(tags[k])
                P, e_, om, M0, s = pb.tagP[tag], float(pb.rows["e"][tag]), float(pb.rows["omega"][tag]), \
                    float(pb.rows["M0"][tag]), float(pb.s_seen[tag])
                x = X[row]
                # (ii) curve of the reconstructed orbit vs the independent one
                orb = out.get_orbit(row)
                for times, tv in ((tt, lin.t), (grid, grid.tcb.mjd)):
                    got = orb.radial_velocity(times).to_value(du)
                    z = np.asarray(oracle.rv_basis(tv, P, e_, om, M0, lin.t_ref), dtype=float)
                    dt = np.asarray(tv, dtype=float) - lin.t_ref
                    want = x[0] * z + x[1] + sum(x[1 + pb.ps["n_offsets"] + j] * dt ** j for j in range(1, pb.ps["poly_trend"]))
                    tolc = 1e-7 * (abs(x[0]) / (1 - e_) ** 2 + np.max(np.abs(want)) + 1e-6) * (1 + np.max(np.abs(dt)) / P * 1e-3)
                    ctx.evaluations += 1
                    if np.max(np.abs(got - want)) > tolc:
                        ctx.violation("reconstructed-curve-differs", "get_orbit(%d).radial_velocity differs from K z(t) + trend about "
                                      "t_ref by %.3g (allowed %.3g)" % (row, np.max(np.abs(got - want)), tolc),
                                      dict(desc, row=row, P=P, e=e_))
                        break
                # (i) Bayes identity
                var = lin.sig ** 2 + s ** 2
                model = orb.radial_velocity(tt).to_value(du)
                for kk in range(1, pb.ps["n_offsets"] + 1):
                    model = model + x[1 + kk] * (survey_of_row == kk)
                if t1_all is not None:
                    t1 = t1_all[row]
                else:
                    t1 = oracle.ln_normal_diag(lin.y, model, var)
                # the reconstruction solves Kepler's equation to ~1e-10 as well: first-order effect on the data term
                tol_kepler = 10 * float(np.sum(np.abs(lin.y - model) / var)) * abs(x[0]) * oracle.kepler_tol(lin.t, P, e_, lin.t_ref)
                lam = np.concatenate([[lin.var_K(P, e_)], lin.lam_rest])
                t2 = oracle.ln_normal_diag(x, lin.mu, lam)
                mean, cov = np.asarray(mv[k]["mean"], float), np.asarray(mv[k]["cov"], float)
                try:
                    t3 = oracle.ln_normal_full(x, mean, cov)
                except Exception:
                    ctx.count("rows_skipped_cov_not_pd")
                    continue
                cnd = np.linalg.cond(cov)
                q = abs(float((x - mean) @ np.linalg.solve(cov, x - mean)))
                # the identity holds for ANY x, so it cannot tell whether the row carries the x that was drawn; but the row's x
                # is a draw of the recorded N(a, A): its squared Mahalanobis distance is chi^2 with L <= 8 degrees of
                # freedom, P(q > 300) < 1e-55 - a row whose columns were exchanged on the way out is not such a draw
                if cnd < 1e10:
                    ctx.evaluations += 1
                    ctx.maxi("max_mahalanobis2_of_row_x", q)
                    if q > 300:
                        ctx.violation("row-x-not-a-draw-of-its-posterior", "row %d: the linear parameters of the row are %.3g (squared "
                                      "Mahalanobis) away from the N(a, A) they were drawn from" % (row, q),
                                      dict(desc, row=row, x=x, mean=mean))
                        break
                zc = oracle.z_column(lin, P, e_, om, M0, "c")
                tol_kernel = oracle.marginal(lin, zc, P, e_, s, want_post=False)["tol"]
                tol = (1e-7 * (1 + abs(t1) + abs(t2) + abs(t3)) + 256 * oracle.EPS * cnd * (q + L) + tol_kepler
                       + tol_kernel)
                resid = lk[row] - (t1 + t2 - t3)
                ctx.evaluations += 1
                ctx.maxi("identity_resid_over_tol", abs(resid) / tol)
                if tol > 1e-2:
                    ctx.count("rows_too_illconditioned")
                    continue
                ctx.distinct.add(repr((pb.ps["poly_trend"], pb.ps["n_offsets"], s > 0, pb.dspec["t_ref_kind"],
                                       "mem" if opts["in_memory"] else "cache", pb.ps["K"]["kind"])))
                if not abs(resid) <= tol:
                    ctx.violation("bayes-identity-broken", "row %d: ln_likelihood=%.10g but ln p(y|theta,x) + ln p(x|theta) - ln N(x|a,A) "
                                  "= %.10g + %.10g - %.10g = %.10g (residual %.3g, allowed %.3g)"
                                  % (row, lk[row], t1, t2, t3, t1 + t2 - t3, resid, tol), dict(desc, row=row, P=P, e=e_, s=s))
                    break
            # the same table after an in-place wrap_K(): each row must still reconstruct the same function of time (whatever the
            # object remembered from the get_orbit() calls above must not leak into the orbits built afterwards)
            if len(out):
                rows_w = [int(r) for r in rng.choice(len(out), size=min(len(out), 4), replace=False)]
                before = [out.get_orbit(r).radial_velocity(grid).to_value(du) for r in rows_w]
                n_neg = int(np.sum(np.asarray(out["K"].value) < 0))
                out.wrap_K()
                for r, c0 in zip(rows_w, before):
                    c1 = out.get_orbit(r).radial_velocity(grid).to_value(du)
                    ctx.evaluations += 1
                    scale = abs(X[r][0]) / (1 - float(out["e"][r])) ** 2 + np.max(np.abs(c0)) + 1e-6
                    if np.max(np.abs(c1 - c0)) > 1e-7 * scale:
                        ctx.violation("curve-changes-after-wrap_K", "get_orbit(%d) describes another curve after an in-place wrap_K() "
                                      "(moved by %.3g; %d rows had K < 0)" % (r, np.max(np.abs(c1 - c0)), n_neg), dict(desc, row=r))
                        break
                ctx.count("rows_rechecked_after_wrap_K", len(rows_w))
            if i % 15 == 0 and len(out):
                ctx.sample(dict(desc, rows=len(out), ln_likelihood=lk[:3], t_ref=float(out.t_ref.tcb.mjd) if out.t_ref is not None else None))
        except Exception as e:
            ctx.exception(e, "reconstruction", desc)
