META = {
    "rule": ("the code against itself, bitwise: for a tagged library and data set the likelihood vector is obtained through "
             "{in_memory} U {cache} x {object, file name} x n_batches in {1,2,3,7,N-1,N,N+5} x {SerialPool, MultiPool(2), "
             "MultiPool(5)}, as single-row calls, as random sub-slices, and after random call histories on the same "
             "TheJoker (other libraries/data sets, posterior draws, rejection runs, failed calls); all vectors must be "
             "bit-identical and in input order, and with equal seeds the accepted tag set of rejection_sample must be the "
             "same on every path. A second driver hammers one CJokerHelper (and its pickled copy) with thousands of "
             "randomly ordered operations (likelihood batches at random positions, posterior draws of extreme rows, "
             "single-row workers) and compares every likelihood and every recorded (mean, cov) bitwise with a fresh "
             "helper's. The hammer also runs under ASan+UBSan (quick and thorough) and valgrind memcheck (thorough). "
             "distinct_nontrivial = distinct (path, n_batches kind, pool, input kind, history kind) tuples compared "
             "plus distinct hammer operation kinds x helper shapes."),
    "shards": {"quick": 4, "thorough": 16},
    "sanitizer_shards": 2,
    "variants": {"quick": ["plain", "asan"], "thorough": ["plain", "asan", "valgrind"]},
    "timeout": {"quick": 900, "thorough": 5400},
    "min_evaluations": {"quick": 400, "thorough": 8000},
    "assumptions": ["bitwise equality is demanded because every path runs the same kernel on the same doubles",
                    "a path combination that raises instead of returning (file name with in_memory=True) is counted as "
                    "unsupported, not as unequal",
                    "sanitizer silence is not memory safety: ASan sees instrumented accesses only, valgrind the hammer's paths"],
}
# ---- END META ----
import os
import sys
import dill as pickle  # schwimmbad.MultiPool is built on multiprocess, which pickles with dill

import numpy as np

from tjverif import oracle, recgen, session

_POOLS = {}


def get_pool(k):
    import schwimmbad
    if k == 0:
        return schwimmbad.SerialPool()
    if k not in _POOLS:
        _POOLS[k] = schwimmbad.MultiPool(processes=k)
    return _POOLS[k]


def bits(a):
    return np.ascontiguousarray(np.asarray(a, dtype=float)).tobytes()


def hammer(ctx, i, rng, nops):
    """Random operation history on one helper vs references from fresh helpers."""
    from thejoker import TheJoker
    pb = session.make_problem(rng, N=int(rng.choice([8, 40, 120])), profile=str(rng.choice(["moderate", "flat", "sharp"])),
                              kkind=str(rng.choice(["default", "default-custom", "normal"])))
    # extreme rows: tiny periods (capped K variance), huge jitter
    if pb.N > 4:
        pb.rows["s_kms"][rng.integers(0, pb.N)] = 1e4 * pb.dspec["err_scale_kms"]
        pb.lib = session.gen.build_samples(pb.rows, units={"s": pb.du}, ln_prior=True)
    joker = TheJoker(pb.prior)
    chunk, _ = pb.lib.pack(units=None, names=None)
    chunk[:, 4] = pb.lib["s"].to_value(session.gen.U(pb.du))
    chunk = np.ascontiguousarray(chunk, dtype=np.float64)
    N = pb.N
    fresh = joker._make_joker_helper(pb.data)
    ref_ll = np.array(fresh.batch_marginal_ln_likelihood(chunk))
    fresh2 = joker._make_joker_helper(pb.data)
    ref_mc = []
    for r in range(N):
        recgen.reset()
        fresh2.batch_get_posterior_samples(chunk[r:r + 1], 1, recgen.make(7))
        e = recgen.events("multivariate_normal")[-1]
        ref_mc.append((bits(e["mean"]), bits(e["cov"])))
    h = joker._make_joker_helper(pb.data)
    hp = pickle.loads(pickle.dumps(h))
    desc = dict(index=i, N=N, n_epochs=len(pb.lin.t), poly_trend=pb.ps["poly_trend"], n_offsets=pb.ps["n_offsets"],
                K=pb.ps["K"]["kind"])
    shape_cls = (len(pb.lin.t) > 4, pb.ps["poly_trend"], pb.ps["n_offsets"], pb.ps["K"]["kind"])
    hist = []
    for k in range(nops):
        target = h if rng.random() < 0.7 else hp
        tname = "helper" if target is h else "pickled-copy"
        op = str(rng.choice(["ll-slice", "ll-rows", "ll-one", "draw", "worker"], p=[.3, .2, .2, .2, .1]))
        try:
            if op == "ll-slice":
                a, b = sorted(int(x) for x in rng.integers(0, N + 1, 2))
                if a == b:
                    a, b = 0, N
                got = np.array(target.batch_marginal_ln_likelihood(chunk[a:b]))
                want = ref_ll[a:b]
                sel = "%d:%d" % (a, b)
            elif op == "ll-rows":
                idx = rng.integers(0, N, size=int(rng.integers(1, 12)))
                got = np.array(target.batch_marginal_ln_likelihood(np.ascontiguousarray(chunk[idx])))
                want = ref_ll[idx]
                sel = idx.tolist()
            elif op == "ll-one":
                r = int(rng.integers(0, N))
                got = np.array(target.batch_marginal_ln_likelihood(chunk[r:r + 1]))
                want = ref_ll[r:r + 1]
                sel = r
            elif op == "worker":
                r = int(rng.integers(0, N))
                got = np.array([target.test_likelihood_worker(chunk[r])])
                want = ref_ll[r:r + 1]
                sel = r
            else:
                idx = rng.integers(0, N, size=int(rng.integers(1, 5)))
                nl = int(rng.choice([1, 3]))
                recgen.reset()
                raw, lls = target.batch_get_posterior_samples(np.ascontiguousarray(chunk[idx]), nl, recgen.make(int(rng.integers(0, 10 ** 6))))
                got = np.array(lls).reshape(len(idx), nl)[:, 0]
                want = ref_ll[idx]
                sel = idx.tolist()
                evs = recgen.events("multivariate_normal")
                for q, e in zip(idx, evs):
                    ctx.evaluations += 1
                    if (bits(e["mean"]), bits(e["cov"])) != ref_mc[q]:
                        ctx.violation("posterior-depends-on-history", "(mean, cov) handed to multivariate_normal for library row %d "
                                      "differ bitwise from a fresh helper's after history %s" % (q, hist[-6:]),
                                      dict(desc, op=op, target=tname, row=int(q)))
                        return
                rawa = np.array(raw)
                if not np.array_equal(rawa[:, :5], np.repeat(chunk[idx], nl, axis=0)):
                    ctx.violation("nonlinear-copy-altered", "posterior draw did not return its nonlinear parameters unchanged",
                                  dict(desc, op=op, target=tname))
                    return
            ctx.evaluations += 1
            ctx.distinct.add(repr((op, tname) + shape_cls))
            if bits(got) != bits(want):
                bad = np.where(np.asarray(got) != np.asarray(want))[0]
                ctx.violation("likelihood-depends-on-history", "%s on %s: %d of %d values differ bitwise from a fresh helper's "
                              "(first: %.17g vs %.17g) after history %s"
                              % (op, tname, len(bad), len(want), np.asarray(got)[bad[0]], np.asarray(want)[bad[0]], hist[-6:]),
                              dict(desc, op=op, target=tname, sel=sel))
                return
            hist.append((op, tname))
        except Exception as e:
            ctx.exception(e, "helper operation %s" % op, desc)
            return
    if i % 10 == 0:
        ctx.sample(dict(desc, operations=nops, history_tail=hist[-8:]))


def run(ctx):
    from thejoker import TheJoker
    sanit = ctx.variant != "plain"
    # ---------------- helper hammer
    nh = ctx.n(6, 25) if not sanit else ctx.n(3, 8)
    nops = ctx.n(450, 1500) if ctx.variant != "valgrind" else 150
    if ctx.variant == "valgrind":
        nh = 2
    for i in ctx.cases(nh):
        hammer(ctx, i, ctx.rng(i, 77), nops)
    if sanit:
        ctx.counters["sanitizer_variant_%s_ops" % ctx.variant] = nh * nops
        return
    # ---------------- a library with more rows than 2^17, evaluated in 2-3 batches (each batch far larger than 2^16 rows and
    # not starting at row 0) against the in-memory values
    if ctx.shard == 0 and ctx.replay is None:
        rngL = ctx.rng(4242)
        pbL = session.make_problem(rngL, N=50, profile="moderate", n_offsets=0, poly_trend=1)
        NL = 140001
        reps = NL // 50 + 1
        rowsL = {k_: np.tile(np.asarray(v_), reps)[:NL] for k_, v_ in pbL.rows.items()}
        rowsL["P"] = rowsL["P"] * (1 + np.arange(NL) * 1e-9)          # unique tags
        libL = session.gen.build_samples(rowsL, units={"s": pbL.du})
        baseL = np.asarray(TheJoker(pbL.prior).marginal_ln_likelihood(pbL.data, libL, in_memory=True))
        for nbL in (2, 3):
            gotL = np.asarray(TheJoker(pbL.prior, tempfile_path=ctx.tmpdir).marginal_ln_likelihood(pbL.data, libL, n_batches=nbL))
            ctx.evaluations += 1
            ctx.distinct.add(repr(("large-library", nbL)))
            if gotL.shape != baseL.shape or bits(gotL) != bits(baseL):
                nd = int(np.sum(gotL != baseL)) if gotL.shape == baseL.shape else -1
                ctx.violation("path-values-differ", "a %d-row library through the cache in %d batches: %s of the values differ from the "
                              "in-memory ones (first at row %s)" % (NL, nbL, nd, int(np.argmax(gotL != baseL)) if nd > 0 else "?"),
                              dict(N=NL, n_batches=nbL))
    # ---------------- API paths
    # (diagnostics only: remember the arguments of the last rejection_sample call, so that an exception names the call)
    LAST = {}
    if not getattr(TheJoker.rejection_sample, "_tjverif_recorded", False):
        _orig_rej = TheJoker.rejection_sample

        def _rec_rej(self, data, prior_samples, *a, **kw):
            LAST["rej"] = dict(kwargs={k_: repr(v_)[:40] for k_, v_ in kw.items()}, library=type(prior_samples).__name__,
                               rows=len(prior_samples) if hasattr(prior_samples, "__len__") and not isinstance(prior_samples, str) else repr(prior_samples)[-30:])
            return _orig_rej(self, data, prior_samples, *a, **kw)
        _rec_rej._tjverif_recorded = True
        TheJoker.rejection_sample = _rec_rej
    n = ctx.n(14, 60)
    for i in ctx.cases(n):
        rng = ctx.rng(i)
        # single data sets also without a reference epoch (t_ref=False) and with a user-given one: what a worker process
        # unpickles must be the same object the parent holds. Without a reference epoch the trend is about BMJD 0: only a constant
        # velocity keeps that design numerically regular (a quadratic in 5e4 d is singular in double precision: all values -inf)
        trk_ = str(rng.choice(["default", "none", "before", "inside"], p=[.45, .2, .2, .15]))
        pb = session.make_problem(rng, N=int(rng.choice([1, 2, 9, 37, 150])), t_ref_kind=trk_,
                                  **({"poly_trend": 1, "n_offsets": 0} if trk_ == "none" else {}))
        if rng.random() < 0.25:
            # a single-precision library (prior.sample(dtype=np.float32)): both paths must still see the same doubles
            for kx in ("P", "e", "omega", "M0"):
                pb.rows[kx] = np.asarray(pb.rows[kx], dtype=np.float32).astype(float)
            s32 = np.asarray(pb.s_seen, dtype=np.float32)
            pb.lib = session.gen.build_samples(pb.rows, units={"s": pb.du}, ln_prior=True, dtype=np.float32)
            pb.lib["s"] = s32 * session.gen.U(pb.du)
            pb.s_seen = s32.astype(float)
            pb.rows["s_kms"] = np.array([session.gen.conv(x, pb.du, "km/s") for x in pb.s_seen])
            pb.tagP = np.asarray(pb.lib["P"].to_value("d"), dtype=float)
            if len(np.unique(pb.tagP)) != pb.N:
                continue            # float32 merged two period tags: skip this case
        N = pb.N
        desc = dict(index=i, N=N, profile=pb.profile, poly_trend=pb.ps["poly_trend"], n_offsets=pb.ps["n_offsets"])
        path = session.lib_file(pb, ctx.tmpdir, "c05lib%d.hdf5" % i)
        try:
            base = np.asarray(TheJoker(pb.prior).marginal_ln_likelihood(pb.data, pb.lib, in_memory=True))
            if base.shape != (N,):
                ctx.violation("wrong-shape", "in-memory vector has shape %r" % (base.shape,), desc)
                continue
            combos = []
            for pk in ([0, 2] if ctx.quick() else [0, 2, 5]):
                for nb in [None, 1, 2, 3, 7, max(1, N - 1), N, N + 5]:
                    for kind in ("obj", "file"):
                        combos.append((pk, nb, kind))
            sel = [combos[j] for j in rng.choice(len(combos), size=min(len(combos), ctx.n(12, 30)), replace=False)]
            for pk, nb, kind in sel:
                j = TheJoker(pb.prior, pool=get_pool(pk), tempfile_path=ctx.tmpdir)
                got = np.asarray(j.marginal_ln_likelihood(pb.data, pb.lib if kind == "obj" else path, n_batches=nb))
                ctx.evaluations += 1
                nbk = "None" if nb is None else "1" if nb == 1 else "N-1" if nb == N - 1 else "N" if nb == N else ">N" if nb > N else "few"
                ctx.distinct.add(repr(("cache", nbk, pk, kind)))
                if got.shape != base.shape or bits(got) != bits(base):
                    nd = int(np.sum(got != base)) if got.shape == base.shape else -1
                    perm = got.shape == base.shape and bits(np.sort(got)) == bits(np.sort(base))
                    ctx.violation("path-values-permuted" if perm else "path-values-differ",
                                  "cache path (pool=%s, n_batches=%r, %s): %s vs in-memory (%d of %d values differ%s)"
                                  % (pk, nb, kind, "shape %r" % (got.shape,) if nd < 0 else "values", nd, N,
                                     "; same multiset => order lost" if perm else ""),
                                  dict(desc, pool=pk, n_batches=nb, kind=kind))
            # file name with in_memory=True: unsupported today (raises) -> counted; if it returns it must agree
            try:
                got = np.asarray(TheJoker(pb.prior).marginal_ln_likelihood(pb.data, path, in_memory=True))
                ctx.evaluations += 1
                if bits(got) != bits(base):
                    ctx.violation("path-values-differ", "file name with in_memory=True returned other values", desc)
            except Exception:
                ctx.count("unsupported_file_in_memory")
            # ONE user file re-used across cases: first holding this library in other (equivalent) column units,
            # then overwritten with the internal-unit library. Values through the file must equal values through
            # the object it was written from (physically for converted columns, bitwise for internal units).
            shared = os.path.join(ctx.tmpdir, "c05_shared_library.hdf5")
            if pb.profile in ("flat", "moderate"):
                alt = {"P": str(rng.choice(["yr", "h"])), "omega": "deg", "M0": "deg", "s": "m/s" if pb.du != "m/s" else "km/s"}
                lib_alt = session.gen.build_samples(pb.rows, units=alt, ln_prior=True)
                lib_alt.write(shared, overwrite=True)
                j = TheJoker(pb.prior, tempfile_path=ctx.tmpdir)
                via_file = np.asarray(j.marginal_ln_likelihood(pb.data, shared, n_batches=int(rng.choice([1, 3]))))
                via_obj = np.asarray(j.marginal_ln_likelihood(pb.data, lib_alt, in_memory=True))
                ctx.evaluations += 1
                ctx.distinct.add(repr(("reused-file", "other-units")))
                if not np.allclose(via_file, via_obj, rtol=1e-7, atol=1e-7):
                    ctx.violation("file-path-values-differ", "a library read from a (re-used) file path gives other likelihoods than "
                                  "the object it was written from (max |diff| %.3g; columns stored in %s)"
                                  % (float(np.max(np.abs(via_file - via_obj))), alt), dict(desc, units=alt))
            pb.lib.write(shared, overwrite=True)
            got = np.asarray(TheJoker(pb.prior, tempfile_path=ctx.tmpdir).marginal_ln_likelihood(pb.data, shared))
            ctx.evaluations += 1
            ctx.distinct.add(repr(("reused-file", "internal-units")))
            if bits(got) != bits(base):
                ctx.violation("file-path-values-differ", "the internal-unit library read from a re-used file path differs bitwise "
                              "from the in-memory values (max |diff| %.3g)" % float(np.max(np.abs(got - base))), desc)
            # single rows and random sub-slices
            for _ in range(6):
                a, b = sorted(int(x) for x in rng.integers(0, N + 1, 2))
                if a == b:
                    a, b = (0, N) if N > 1 else (0, 1)
                sub = pb.lib[a:b]
                im = bool(rng.random() < 0.5)
                got = np.asarray(TheJoker(pb.prior, tempfile_path=ctx.tmpdir).marginal_ln_likelihood(pb.data, sub, in_memory=im))
                ctx.evaluations += 1
                ctx.distinct.add(repr(("subslice", "one" if b - a == 1 else "many", im)))
                if bits(got) != bits(base[a:b]):
                    ctx.violation("value-depends-on-batch-position", "rows %d:%d evaluated alone differ bitwise from their "
                                  "values inside the full library" % (a, b), dict(desc, a=a, b=b, in_memory=im))
            # history on one TheJoker
            j = TheJoker(pb.prior, pool=get_pool(int(rng.choice([0, 2]))), rng=np.random.default_rng(5), tempfile_path=ctx.tmpdir)
            other = session.make_problem(ctx.rng(i, 3), N=int(rng.choice([3, 20])), n_offsets=pb.ps["n_offsets"],
                                         poly_trend=pb.ps["poly_trend"])
            hist = []
            for step in range(int(rng.integers(3, 8))):
                op = str(rng.choice(["other-lib", "rejection", "failed", "posterior-extreme", "same", "same-data-other-unit"]))
                try:
                    if op == "same-data-other-unit":
                        # the same observations quoted in another velocity unit, through the same sampler and prior objects:
                        # conversions worked out for that unit must not be remembered for the next call
                        import copy as _copy
                        d2 = _copy.deepcopy(pb.dspec)
                        nu_ = str(rng.choice([x for x in session.gen.VEL_UNITS if x != d2["unit"]]))
                        for s_ in d2["surveys"]:
                            f_ = session.gen.conv(1.0, s_["unit"], nu_)
                            fe_ = session.gen.conv(1.0, s_.get("err_unit", s_["unit"]), nu_)
                            s_["rv"] = [v_ * f_ for v_ in s_["rv"]]
                            s_["err"] = [v_ * fe_ for v_ in s_["err"]]
                            s_["unit"] = s_["err_unit"] = nu_
                        d2["unit"] = nu_
                        other_unit = np.asarray(j.marginal_ln_likelihood(session.gen.build_data(d2), pb.lib,
                                                                         in_memory=bool(rng.random() < 0.5)), dtype=float)
                        # what this sampler already worked out for the first unit must not answer for the second: the values are
                        # the base values shifted by the Jacobian n ln(unit ratio) (loose tolerance: this is not C07's fine comparison)
                        n_ep_ = len(pb.lin.t)
                        want_ = base - n_ep_ * np.log(session.gen.conv(1.0, pb.dspec["unit"], nu_))
                        okf = np.isfinite(want_) & np.isfinite(other_unit)
                        # ... judged on rows whose value is numerically well determined only (C01's measured round-off below 1e-6):
                        # with t_ref=False and a quadratic trend, say, the design is near-singular and any change of unit moves the
                        # value by far more than a fixed allowance
                        pick_ = [int(r_) for r_ in rng.choice(N, size=min(N, 5), replace=False)]
                        well_ = np.zeros(N, dtype=bool)
                        for r_ in pick_:
                            z_ = oracle.z_column(pb.lin, pb.tagP[r_], pb.rows["e"][r_], pb.rows["omega"][r_], pb.rows["M0"][r_])
                            well_[r_] = oracle.marginal(pb.lin, z_, pb.tagP[r_], pb.rows["e"][r_], pb.s_seen[r_], want_post=False)["tol"] < 1e-6
                        okf &= well_
                        # (only on flat / moderately informative data: on sharply peaked likelihoods the rounding of the unit
                        # conversion itself moves values by more than any fixed relative allowance - that regime is C07's, with
                        # measured tolerances)
                        if pb.profile in ("flat", "moderate") and np.any(okf) and \
                                np.max(np.abs(other_unit[okf] - want_[okf]) / (1 + np.abs(want_[okf]))) > 1e-4:
                            ctx.violation("value-depends-on-call-history", "the same data quoted in %s after %s on the same TheJoker: values "
                                          "are off by up to %.3g from the base values shifted by the Jacobian"
                                          % (nu_, hist, float(np.max(np.abs(other_unit[okf] - want_[okf])))), dict(desc, history=hist))
                            break
                    elif op == "other-lib":
                        j.marginal_ln_likelihood(pb.data, other.lib, in_memory=bool(rng.random() < 0.5))
                    elif op == "rejection":
                        if np.any(np.isfinite(base)):     # rejection needs one finite likelihood to return anything
                            j.rejection_sample(pb.data, pb.lib, n_linear_samples=int(rng.choice([1, 4])),
                                               in_memory=bool(rng.random() < 0.5))
                    elif op == "failed":
                        try:
                            j.marginal_ln_likelihood(pb.data, "/nonexistent/file.hdf5")
                        except Exception:
                            pass
                    elif op == "posterior-extreme":
                        if np.isfinite(base[0]):      # a one-row library needs a finite likelihood to return anything
                            j.rejection_sample(pb.data, pb.lib[:1], n_linear_samples=50, in_memory=True)
                    else:
                        pass
                except Exception as e:
                    if not ctx.exception(e, "history step %s" % op, desc):
                        return
                hist.append(op)
                got = np.asarray(j.marginal_ln_likelihood(pb.data, pb.lib, in_memory=bool(rng.random() < 0.5),
                                                          n_batches=int(rng.choice([1, 3]))))
                ctx.evaluations += 1
                ctx.distinct.add(repr(("history", op)))
                if bits(got) != bits(base):
                    ctx.violation("value-depends-on-call-history", "after %s on the same TheJoker the likelihood vector differs "
                                  "bitwise from a fresh sampler's" % hist, dict(desc, history=hist))
                    break
            # the library OBJECT is modified in place between two calls (a column replaced): the second call must see
            # the new values - nothing may be remembered from the first call
            if pb.exact and np.any(np.isfinite(base)):
                import astropy.units as _u
                libm = session.gen.build_samples(pb.rows, units={"s": pb.du}, ln_prior=True)
                jm = TheJoker(pb.prior, rng=np.random.default_rng(3), tempfile_path=ctx.tmpdir)
                im = bool(rng.random() < 0.6)
                jm.marginal_ln_likelihood(pb.data, libm, in_memory=im)
                jm.rejection_sample(pb.data, libm, in_memory=im)
                new_s = (np.asarray(pb.s_seen) + pb.dspec["err_scale_kms"] * session.gen.conv(1, "km/s", pb.du)) * session.gen.U(pb.du)
                which = str(rng.choice(["s", "e", "wrap", "s-in-place"]))
                if which == "s-in-place":
                    libm["s"][:] = new_s                      # through the live column: no item assignment on the table
                elif which == "s":
                    libm["s"] = new_s
                elif which == "e":
                    libm["e"] = np.clip(np.asarray(libm["e"]) * 0.5, 0, 0.9)
                else:
                    libm["omega"] = (np.asarray(libm["omega"].to_value(_u.rad)) + 0.25) * _u.rad
                got = np.asarray(jm.marginal_ln_likelihood(pb.data, libm, in_memory=im))
                fresh = session.gen.build_samples(dict(P=pb.rows["P"], e=np.asarray(libm["e"]), omega=np.asarray(libm["omega"].to_value(_u.rad)),
                                                       M0=pb.rows["M0"], s_kms=pb.rows["s_kms"]), units={"s": pb.du})
                fresh["s"] = libm["s"]
                want = np.asarray(TheJoker(pb.prior).marginal_ln_likelihood(pb.data, fresh, in_memory=True))
                ctx.evaluations += 1
                ctx.distinct.add(repr(("library-mutated-in-place", which, im)))
                if bits(got) != bits(want):
                    ctx.violation("stale-library-after-in-place-change", "after replacing column %r of the same JokerSamples object the "
                                  "likelihoods are not those of the modified library (max |diff| %.3g; %d of %d equal the OLD values)"
                                  % (which, float(np.nanmax(np.abs(got - want))), int(np.sum(got == base)), N), dict(desc, column=which, in_memory=im))
            # the data OBJECT itself is edited between two calls on one TheJoker (uncertainties inflated in place)
            if pb.ps["n_offsets"] == 0 and i % 2 == 0:
                from thejoker import RVData as _RV
                dmut = pb.data.copy()
                jr = TheJoker(pb.prior, rng=np.random.default_rng(6), tempfile_path=ctx.tmpdir)
                imr = bool(rng.random() < 0.5)
                jr.marginal_ln_likelihood(dmut, pb.lib, in_memory=imr)
                dmut.rv_err = dmut.rv_err * 3.0
                got = np.asarray(jr.marginal_ln_likelihood(dmut, pb.lib, in_memory=imr))
                fresh_d = _RV(t=dmut.t, rv=dmut.rv, rv_err=dmut.rv_err, t_ref=dmut.t_ref if dmut.t_ref is not None else False)
                want = np.asarray(TheJoker(pb.prior).marginal_ln_likelihood(fresh_d, pb.lib, in_memory=True))
                ctx.evaluations += 1
                ctx.distinct.add(repr(("data-object-edited-in-place", imr)))
                if bits(got) != bits(want):
                    ctx.violation("stale-data-after-in-place-change", "after the uncertainties of the same RVData object were inflated the "
                                  "same TheJoker returns values that are not those of the edited data (%d of %d equal the OLD data's)"
                                  % (int(np.sum(got == base)), N), dict(desc, edited="rv_err", in_memory=imr))
            # the user's own CONTAINER of data sets is modified in place between two calls on one TheJoker
            if pb.ps["n_offsets"] == 0:
                other = session.make_problem(ctx.rng(i, 9), N=3, n_offsets=0, poly_trend=pb.ps["poly_trend"])
                box = [pb.data]
                jd = TheJoker(pb.prior, rng=np.random.default_rng(4), tempfile_path=ctx.tmpdir)
                first = np.asarray(jd.marginal_ln_likelihood(box, pb.lib, in_memory=bool(rng.random() < 0.5)))
                box[0] = other.data
                second = np.asarray(jd.marginal_ln_likelihood(box, pb.lib, in_memory=bool(rng.random() < 0.5)))
                # (a list of sources is merged about its earliest epoch, so the references are lists as well)
                want1 = np.asarray(TheJoker(pb.prior).marginal_ln_likelihood([pb.data], pb.lib, in_memory=True))
                want2 = np.asarray(TheJoker(pb.prior).marginal_ln_likelihood([other.data], pb.lib, in_memory=True))
                ctx.evaluations += 1
                ctx.distinct.add(repr(("data-container-mutated-in-place",)))
                if bits(first) != bits(want1) or bits(second) != bits(want2):
                    ctx.violation("stale-data-after-in-place-change", "after replacing the data set inside the list passed to the same "
                                  "TheJoker the likelihoods are not those of the new data (%d of %d equal the OLD data's values)"
                                  % (int(np.sum(second == want1)), N), desc)
            # rejection: equal seeds => equal accepted tag set on every path
            if not np.all(np.isfinite(base)):
                # rejection_sample needs a finite likelihood among the rows it evaluates (C02's domain); the sub-libraries and
                # scripted orders below may select only non-finite rows of such a library: these cases are left to C02/C06
                ctx.count("cases_with_nonfinite_likelihoods_rejection_paths_skipped")
                continue
            seed = int(rng.integers(0, 2 ** 31))
            sets = {}
            for pk, nb, kind, im in [(0, None, "obj", True), (0, None, "obj", False), (0, 3, "file", False),
                                     (2, None, "obj", False), (2, 7, "file", False)]:
                jj = TheJoker(pb.prior, pool=get_pool(pk), rng=np.random.default_rng(seed), tempfile_path=ctx.tmpdir)
                try:
                    out = jj.rejection_sample(pb.data, pb.lib if kind == "obj" else path, n_batches=nb, in_memory=im)
                except Exception:
                    if os.environ.get("TJ_DEBUG"):
                        lls_ = np.asarray(TheJoker(pb.prior).marginal_ln_likelihood(pb.data, pb.lib, in_memory=True))
                        print("TJ_DEBUG rejection failed for", (pk, nb, kind, im), "base", base, "again", lls_, "lib dtype",
                              pb.lib["P"].dtype, "u", np.random.default_rng(seed).uniform(size=len(base)), file=sys.stderr)
                    raise
                tags = np.searchsorted(pb.tagP, np.asarray(out["P"].to_value("d")))
                sets[(pk, nb, kind, im)] = tags.tolist()
                ctx.evaluations += 1
                ctx.distinct.add(repr(("rejection-path", pk, nb, kind, im)))
            # shuffled evaluation order: the all-logprobs vector must be the base values in the recorded order
            if N > 1:
                recgen.reset()
                jj = TheJoker(pb.prior, pool=get_pool(0), rng=recgen.make(seed), tempfile_path=ctx.tmpdir)
                _, lls_r = jj.rejection_sample(pb.data, path if rng.random() < 0.5 else pb.lib, randomize_prior_order=True,
                                               return_all_logprobs=True, n_batches=int(rng.choice([1, 2, 5])))
                ch = recgen.events("choice")
                if len(ch) == 1:
                    idx = np.asarray(ch[0]["result"], dtype=int)
                    ctx.evaluations += 1
                    ctx.distinct.add(repr(("shuffled-order",)))
                    if bits(np.asarray(lls_r)) != bits(base[idx]):
                        ctx.violation("values-not-in-input-order", "with a shuffled evaluation order the likelihoods do not come "
                                      "back in the order of the requested rows", dict(desc, idx_head=idx[:8]))
            # tiny libraries in a random order, many seeds: every permutation of 2-5 rows occurs, including those that look
            # like an ascending block by their end points
            if N >= 3:
                for Nt in (3, 4, 5):
                    if N < Nt:
                        continue
                    small = pb.lib[:Nt]
                    for sd_ in range(ctx.n(6, 16)):
                        recgen.reset()
                        jj = TheJoker(pb.prior, pool=get_pool(0), rng=recgen.make(1000 * Nt + sd_), tempfile_path=ctx.tmpdir)
                        _, l_ = jj.rejection_sample(pb.data, small, randomize_prior_order=True, return_all_logprobs=True)
                        ch = recgen.events("choice")
                        if len(ch) != 1:
                            continue
                        idx = np.asarray(ch[0]["result"], dtype=int)
                        ctx.evaluations += 1
                        if bits(np.asarray(l_)) != bits(base[:Nt][idx]):
                            ctx.violation("values-not-in-input-order", "a %d-row library evaluated in the order %s returns the "
                                          "likelihoods of other rows" % (Nt, idx.tolist()), dict(desc, order=idx.tolist()))
                            break
                ctx.distinct.add(repr(("tiny-library-random-order",)))
            # scripted evaluation orders (see recgen.SCRIPT): subsets whose end points are len-1 apart while the interior is
            # shuffled or lies elsewhere, reversed blocks, a block with two neighbours exchanged
            if N >= 6:
                def scripted(kind_):
                    def f(a, size):
                        size = min(size, a)
                        lo = int(rng.integers(0, a - size + 1))
                        blk = np.arange(lo, lo + size)
                        if kind_ == "ends-fixed-interior-shuffled" and size >= 4:
                            mid = rng.permutation(blk[1:-1])
                            if np.all(np.diff(mid) > 0):
                                mid = mid[::-1]
                            return np.concatenate([[blk[0]], mid, [blk[-1]]])
                        if kind_ == "ends-fixed-interior-elsewhere" and size >= 3 and a - size >= size - 2:
                            rest = np.setdiff1d(np.arange(a), blk)
                            return np.concatenate([[blk[0]], rng.choice(rest, size=size - 2, replace=False), [blk[-1]]])
                        if kind_ == "reversed":
                            return blk[::-1]
                        if size >= 2:
                            blk = blk.copy(); j_ = int(rng.integers(0, size - 1)); blk[[j_, j_ + 1]] = blk[[j_ + 1, j_]]
                        return blk
                    return f
                for kind_ in ("ends-fixed-interior-shuffled", "ends-fixed-interior-elsewhere", "reversed", "neighbours-swapped"):
                    M2 = int(rng.integers(4, N + 1)) if kind_ != "ends-fixed-interior-elsewhere" else int(rng.integers(3, max(4, N // 2)))
                    recgen.reset()
                    recgen.SCRIPT["order"], recgen.SCRIPT["used"] = scripted(kind_), 0
                    try:
                        jj = TheJoker(pb.prior, pool=get_pool(0), rng=recgen.make(seed + 5), tempfile_path=ctx.tmpdir)
                        _, l_ = jj.rejection_sample(pb.data, path if rng.random() < 0.5 else pb.lib, randomize_prior_order=True,
                                                    n_prior_samples=M2, return_all_logprobs=True,
                                                    n_batches=int(rng.choice([1, 2, 3])))
                    finally:
                        recgen.SCRIPT["order"] = None
                    ch = recgen.events("choice")
                    if len(ch) != 1 or not recgen.SCRIPT["used"]:
                        ctx.count("scripted_orders_not_applied")
                        continue
                    idx = np.asarray(ch[0]["result"], dtype=int)
                    ctx.evaluations += 1
                    ctx.distinct.add(repr(("scripted-order", kind_)))
                    if bits(np.asarray(l_)) != bits(base[idx]):
                        ctx.violation("values-not-in-input-order", "rows evaluated in the order %s... (%s): the likelihood vector is "
                                      "not that of these rows in this order" % (idx[:8].tolist(), kind_), dict(desc, order=idx.tolist()[:40]))
            # a shuffled subset (n_prior_samples + randomize) must be the same rows whether the library is an object or a file
            if N > 3:
                sub = {}
                for kind in ("obj", "file"):
                    jj = TheJoker(pb.prior, pool=get_pool(0), rng=np.random.default_rng(seed), tempfile_path=ctx.tmpdir)
                    o_, l_ = jj.rejection_sample(pb.data, pb.lib if kind == "obj" else path, randomize_prior_order=True,
                                                 n_prior_samples=max(2, N // 3), return_all_logprobs=True)
                    sub[kind] = (np.searchsorted(pb.tagP, np.asarray(o_["P"].to_value("d"))).tolist(), bits(l_))
                ctx.evaluations += 1
                ctx.distinct.add(repr(("shuffled-subset", "obj-vs-file")))
                if sub["obj"] != sub["file"]:
                    ctx.violation("accepted-set-depends-on-path", "randomize_prior_order + n_prior_samples with equal seeds: the object "
                                  "path accepts rows %s..., the file path %s..." % (sub["obj"][0][:6], sub["file"][0][:6]),
                                  dict(desc, seed=seed))
            # a leading subset (n_prior_samples < library, evaluation in file order): the same rows and the same likelihood
            # vector for every batch count, including those that do not divide the request
            if N > 4:
                M_ = int(rng.integers(2, N))
                lead = {}
                for nb_ in [None, 1, 3, 7, max(1, M_ - 1)]:
                    kind = str(rng.choice(["obj", "file"]))
                    jj = TheJoker(pb.prior, pool=get_pool(0), rng=np.random.default_rng(seed), tempfile_path=ctx.tmpdir)
                    o_, l_ = jj.rejection_sample(pb.data, pb.lib if kind == "obj" else path, n_prior_samples=M_, n_batches=nb_,
                                                 return_all_logprobs=True)
                    lead[(nb_, kind)] = (np.searchsorted(pb.tagP, np.asarray(o_["P"].to_value("d"))).tolist(), bits(np.asarray(l_)),
                                         len(l_))
                ctx.evaluations += 1
                ctx.distinct.add(repr(("leading-subset", "n_batches")))
                lv = list(lead.values())
                if any(v != lv[0] for v in lv[1:]) or lv[0][2] != M_ or lv[0][1] != bits(base[:M_]):
                    ctx.violation("accepted-set-depends-on-path", "n_prior_samples=%d of %d: accepted rows / likelihood vector differ "
                                  "between batch counts or are not those of the first %d rows: %s"
                                  % (M_, N, M_, {str(k): (v[0][:5], v[2]) for k, v in lead.items()}), dict(desc, seed=seed))
            vals = list(sets.values())
            if any(v != vals[0] for v in vals[1:]):
                ctx.violation("accepted-set-depends-on-path", "equal seeds but different accepted rows across paths: %s"
                              % {str(k): v[:6] for k, v in sets.items()}, dict(desc, seed=seed))
            if i % 5 == 0:
                ctx.sample(dict(desc, combos_checked=[list(map(str, c)) for c in sel[:6]], accepted=vals[0][:8]))
        except Exception as e:
            ctx.exception(e, "path comparison", dict(desc, last_rejection_call=LAST.get("rej")))
        finally:
            if os.path.exists(path):
                os.unlink(path)
    for p in _POOLS.values():
        try:
            p.close()
        except Exception:
            pass
