META = {
    "rule": ("seeded rejection_sample and iterative_rejection_sample sessions with return_logprobs=True (and "
             "return_all_logprobs) over the option product in-memory|cache x object|file x n_batches x "
             "randomize_prior_order x n_prior_samples x max_posterior_samples x n_linear_samples in {1,3} x "
             "init_batch_size/growth_factor/max_prior_samples, on libraries whose row i carries the unique period tag "
             "P_i and ln_prior_i = -(i+1/2). Each returned row names its library row through its period; the monitor "
             "requires ln_prior == -(tag+1/2) exactly, ln_likelihood == the likelihood of that tag, plain float64 "
             "columns, and the all-logprobs vector in evaluation order. distinct_nontrivial = distinct (sampler, path, "
             "input kind, randomize, truncation, n_linear, accepted>=2?) classes with at least one row checked."),
    "shards": {"quick": 4, "thorough": 16},
    "timeout": {"quick": 900, "thorough": 3600},
    "min_evaluations": {"quick": 150, "thorough": 3000},
    "assumptions": ["row identity via unique period tags (library in internal units)",
                    "the acceptance set itself is judged by C02/C14; here only the bookkeeping of the log-probabilities"],
}
# ---- END META ----
import numpy as np

from tjverif import recgen, session


def classify_exception(e, opts, n_accept_hint=None):
    msg = repr(e)
    nlin = int(opts.get("n_linear_samples", 1))
    if nlin > 1 and ("length" in msg.lower() or "shape" in msg.lower() or "broadcast" in msg.lower()
                     or "Inconsistent" in msg):
        return "logprobs-not-repeated-per-linear-sample"
    return "raises"


def run(ctx):
    recgen.install_child_recording()
    session.Inject.install()
    n = ctx.n(45, 300)
    for i in ctx.cases(n):
        rng = ctx.rng(i)
        # ---------------- rejection_sample
        try:
            r = session.one_session(ctx, i, rng, return_logprobs=True, exc_classifier=classify_exception,
                                    problem_kw=dict(profile=str(rng.choice(["moderate", "flat", "moderate", "sharp"]))))
        except Exception as e:
            ctx.exception(e, "session", dict(index=i))
            r = None
        if r is not None:
            pb, opts, out, lls, events, ll_lib, bad, info, desc, inj_kind, trunc, as_file = r
            keys = [b[0] for b in bad]
            if "inconclusive-pattern" in keys or "borderline" in keys or "row_tags" not in info:
                # the all-logprobs findings of the history checker are still C06's business
                for key, msg in bad:
                    if key.startswith("all-logprobs"):
                        ctx.violation(key, msg, desc)
                # the history could not be replayed (e.g. another number of uniforms than the request prescribes), but a
                # returned row still names its library row through its period: the columns can be judged without the history
                try:
                    import astropy.units as u_
                    tags_, ok_ = session.tags_of(pb, np.asarray(out["P"].to_value(u_.day), dtype=float))
                except Exception:
                    tags_, ok_ = None, np.array([False])
                if tags_ is not None and len(tags_) and bool(np.all(ok_)) and "borderline" not in keys:
                    ctx.evaluations += 1
                    ctx.count("rows_identified_by_period_only", len(tags_))
                    for key, msg in session.check_logprob_columns(pb, opts, out, np.asarray(tags_, dtype=int), ll_lib):
                        ctx.violation(key, msg, dict(desc, identified="by period only"))
                else:
                    ctx.count("rejection_sessions_without_row_identity")
            else:
                ctx.evaluations += 1
                na = info.get("n_accept", 0)
                ctx.count("rows_checked", len(info["row_tags"]))
                ctx.distinct.add(repr(("rejection", "mem" if opts["in_memory"] else "cache", "file" if as_file else "obj",
                                       bool(opts.get("randomize_prior_order")), trunc, opts["n_linear_samples"], na >= 2)))
                for key, msg in bad:
                    if key.startswith("all-logprobs"):
                        ctx.violation(key, msg, desc)
                for key, msg in session.check_logprob_columns(pb, opts, out, info["row_tags"], ll_lib):
                    ctx.violation(key, msg, dict(desc, n_accept=na))
                if i % 40 == 0:
                    ctx.sample(dict(desc, rows=len(out), tags=info["row_tags"][:6],
                                    ln_prior=repr(out.tbl["ln_prior"][:6]) if "ln_prior" in out.par_names else None))
        # ---------------- the library's ln_prior column replaced (re-weighting under another prior) between two runs on the SAME
        # sampler and library objects: the second run carries the new values
        if i % 6 == 0:
            try:
                rq = ctx.rng(i, 7)
                pbq = session.make_problem(rq, N=int(rq.choice([40, 150])), profile="flat")
                from thejoker import TheJoker
                jq = TheJoker(pbq.prior, rng=np.random.default_rng(int(rq.integers(0, 2 ** 31))), tempfile_path=ctx.tmpdir)
                mem = bool(rq.random() < 0.6)
                jq.rejection_sample(pbq.data, pbq.lib, in_memory=mem, return_logprobs=True)
                new_lp = -(np.arange(pbq.N) * 3.0 + 0.25)
                if rq.random() < 0.5:
                    pbq.lib["ln_prior"] = new_lp
                else:
                    pbq.lib["ln_prior"][:] = new_lp            # in place, through the live column
                import astropy.units as u_
                o2 = jq.rejection_sample(pbq.data, pbq.lib, in_memory=mem, return_logprobs=True, n_linear_samples=int(rq.choice([1, 2])))
                tags2, ok2 = session.tags_of(pbq, np.asarray(o2["P"].to_value(u_.day), dtype=float))
                ctx.evaluations += 1
                ctx.distinct.add(repr(("ln_prior-replaced-between-runs", mem)))
                if bool(np.all(ok2)) and not np.array_equal(np.asarray(o2["ln_prior"], dtype=float), new_lp[np.asarray(tags2, dtype=int)]):
                    ctx.violation("ln_prior-misattributed", "after the library's ln_prior column was replaced on the same object, the "
                                  "second run (%s) still returns other values (e.g. row of library row %d: %r, column now holds %r)"
                                  % ("in memory" if mem else "cache", int(tags2[0]), float(np.asarray(o2["ln_prior"])[0]),
                                     float(new_lp[int(tags2[0])])), dict(index=i, in_memory=mem))
            except Exception as e:
                ctx.exception(e, "second run after replacing ln_prior", dict(index=i))
        # ---------------- iterative_rejection_sample
        rng2 = ctx.rng(i, 1)
        try:
            S = session.iterative_session(ctx, i, rng2, return_logprobs=True,
                                          problem_kw=dict(N=int(rng2.choice([50, 200, 1000, 5000]))))
        except Exception as e:
            ctx.exception(e, "iterative session", dict(index=i))
            continue
        pb, opts, desc = S["pb"], S["opts"], S["desc"]
        if S["raised"] is not None:
            must_raise = S["first"] > S["budget"]
            ev_ = np.concatenate(S["eval_log"]) if S["eval_log"] else np.array([], dtype=int)
            nonfinite_seen = bool(len(ev_)) and bool(np.any(~np.isfinite(S["ll_lib"][ev_])))
            if (not must_raise and S["inj_kind"] != "neg-inf" and not (opts.get("max_prior_samples") or 0) > pb.N
                    and not nonfinite_seen):
                key = classify_exception(S["raised"], opts)
                ctx.exception(S["raised"], "iterative_rejection_sample(return_logprobs=True)", desc, key=key)
            continue
        bad, info = session.check_iterative_history(pb, opts, S["ret"], S["events"], S["ll_lib"], S["eval_log"])
        if "row_tags" not in info or any(b[0] in ("borderline",) for b in bad):
            ctx.count("iterative_sessions_without_row_identity")
            continue
        ctx.evaluations += 1
        ctx.count("rows_checked", len(info["row_tags"]))
        ctx.distinct.add(repr(("iterative", "mem" if opts["in_memory"] else "cache", "file" if S["as_file"] else "obj",
                               bool(opts.get("randomize_prior_order")), opts["n_linear_samples"],
                               len(set(info["row_tags"].tolist())) >= 2)))
        for key, msg in session.check_logprob_columns(pb, opts, S["ret"], info["row_tags"], S["ll_lib"]):
            ctx.violation(key, msg, desc)

    # a monitor that could not recognise the recorded draw pattern has not judged that session: if that happens often the
    # verdict is "inconclusive", never "held"
    _skipped = ctx.counters.get("pattern_not_found", 0) + ctx.counters.get("sessions_without_row_identity", 0) \
        + ctx.counters.get("rejection_sessions_without_row_identity", 0) + ctx.counters.get("iterative_sessions_without_row_identity", 0)
    if ctx.replay is None and _skipped > 0.25 * (2 * n):
        ctx.inconclusive = "%d of %d sessions could not be judged (draw pattern or row identity not recognised)" % (_skipped, 2 * n)
