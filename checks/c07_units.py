META = {
    "rule": ("metamorphic twins: a base problem (moderately informative data; tagged library) and a unit-transformed twin that "
             "is physically identical by construction - RV data in another velocity unit; sigma_K0, max_K, custom K prior, "
             "trend and offset priors in other velocity units; P_min/P_max (the unit of the period variable) in yr|h|d; P0 "
             "in yr|d|h; library columns P in yr|h, omega/M0 in deg, s in m/s|cm/s; and combinations - are run with equal "
             "seeds. Monitors: ll_twin - ll_base == -n_epochs ln(data-unit ratio) for every row; equal accepted tag sets; "
             "posterior linear columns equal after conversion; output columns carry the data unit. "
             "distinct_nontrivial = distinct (set of transformed quantities, path, K kind, poly_trend, n_offsets) classes."),
    "shards": {"quick": 4, "thorough": 16},
    "timeout": {"quick": 900, "thorough": 3600},
    "min_evaluations": {"quick": 300, "thorough": 6000},
    "assumptions": ["base problems have K/sigma <= ~100 and dt/P <= 1e4 so that one-ulp input differences from unit conversion "
                    "move ll by less than the tolerance 1e-8 (1+|ll|) + 2 x kernel round-off",
                    "acceptance decisions within 1e-7 of the threshold are borderline and excluded"],
}
# ---- END META ----
import copy
import os

import numpy as np

from tjverif import gen, oracle, recgen, session

# composite and scaled units too: km/h, AU/yr and a prefixed "100 m/s" are all legal astropy velocity units
VEL = ["km/s", "m/s", "cm/s", "pc/Myr", "km/h", "AU/yr", "100 m/s"]
TIME = ["d", "yr", "h", "min", "wk"]


def other(rng, cur, pool):
    c = [x for x in pool if x != cur]
    return str(c[rng.integers(0, len(c))])


def transform(rng, pb):
    """Return (dspec2, ps2, lib_units, what[set], data_factor)."""
    d2 = copy.deepcopy(pb.dspec)
    p2 = copy.deepcopy(pb.ps)
    what = set()
    f_data = 1.0
    lib_units = {"s": pb.du}
    kinds = ["data", "Kprior", "vprior", "Punit", "P0", "libP", "libangles", "libs", "maxK", "offsets"]
    chosen = set(rng.choice(kinds, size=int(rng.integers(1, 5)), replace=False).tolist())
    if "data" in chosen:
        nu = other(rng, d2["unit"], VEL)
        for s in d2["surveys"]:
            f = gen.conv(1.0, s["unit"], nu)
            fe = gen.conv(1.0, s.get("err_unit", s["unit"]), nu)
            s["rv"] = [v * f for v in s["rv"]]
            s["err"] = [v * fe for v in s["err"]]
            s["unit"] = nu
            s["err_unit"] = nu
        f_data = gen.conv(1.0, d2["unit"], nu)
        d2["unit"] = nu
        what.add("data")
    K = p2["K"]
    if "Kprior" in chosen:
        nu = other(rng, K["unit"], VEL)
        f = gen.conv(1.0, K["unit"], nu)
        for k in ("mu", "sigma", "sigma_K0"):
            if k in K:
                K[k] = K[k] * f
        K["unit"] = nu
        what.add("Kprior")
    if "maxK" in chosen and K["kind"] == "default" and K.get("custom"):
        nu = other(rng, K["max_K_unit"], VEL)
        K["max_K"] = gen.conv(K["max_K"], K["max_K_unit"], nu)
        K["max_K_unit"] = nu
        what.add("maxK")
    if "vprior" in chosen:
        for v in p2["v"]:
            nu = other(rng, v["unit"], VEL)
            f = gen.conv(1.0, v["unit"], nu)
            v["mu"], v["sigma"], v["unit"] = v["mu"] * f, v["sigma"] * f, nu
        what.add("vprior")
    if "offsets" in chosen and p2["offsets"]:
        for o in p2["offsets"]:
            nu = other(rng, o["unit"], VEL)
            f = gen.conv(1.0, o["unit"], nu)
            o["mu"], o["sigma"], o["unit"] = o["mu"] * f, o["sigma"] * f, nu
        what.add("offsets")
    if "Punit" in chosen:
        nu = other(rng, p2["P_unit"], TIME)
        p2["P_min"] = gen.conv(p2["P_min"], p2["P_unit"], nu)
        p2["P_max"] = gen.conv(p2["P_max"], p2["P_unit"], nu)
        p2["P_unit"] = nu
        what.add("Punit")
    if "P0" in chosen and K["kind"] == "default":
        nu = other(rng, K["P0_unit"], TIME)
        K["P0"] = gen.conv(K["P0"], K["P0_unit"], nu)
        K["P0_unit"] = nu
        what.add("P0")
    if "libP" in chosen:
        lib_units["P"] = str(rng.choice(["yr", "h", "min", "wk"]))
        what.add("libP")
    if "libangles" in chosen:
        lib_units["omega"] = "deg"
        lib_units["M0"] = "deg"
        what.add("libangles")
    if "libs" in chosen:
        lib_units["s"] = other(rng, pb.du, VEL)
        what.add("libs")
    if not what:
        lib_units["P"] = "yr"
        what.add("libP")
    return d2, p2, lib_units, what, f_data


def mcmc_twin(ctx, rng, pb, jb, jt, data2, prior2, p2, d2, f_data, n_ep, wdesc, cls):
    from tjverif import mcmc
    n_off = pb.ps["n_offsets"]
    from thejoker import TheJoker
    # own sampler objects: the generators of jb / jt must stay in step for the equal-seed comparisons that follow
    jb = TheJoker(pb.prior, rng=np.random.default_rng(5), tempfile_path=ctx.tmpdir)
    jt = TheJoker(prior2, rng=np.random.default_rng(5), tempfile_path=ctx.tmpdir)
    post_b = jb.rejection_sample(pb.data, pb.lib, in_memory=True, max_posterior_samples=1)
    post_t = jt.rejection_sample(data2, gen.build_samples(pb.rows, units={"s": d2["unit"]}), in_memory=True, max_posterior_samples=1)
    with pb.prior.model:
        jb.setup_mcmc(pb.data, post_b)
    with prior2.model:
        jt.setup_mcmc(data2, post_t)
    fb, vb = mcmc.compile_model(pb.prior.model, with_logp=True)
    ft, vt = mcmc.compile_model(prior2.model, with_logp=True)
    dlogp = []
    mag = 0.0
    lin = pb.lin
    du, du2 = pb.du, d2["unit"]
    for _ in range(3):
        P_d = float(np.exp(rng.uniform(np.log(gen.conv(pb.ps["P_min"], pb.ps["P_unit"], "d")) + 1e-6,
                                       np.log(gen.conv(pb.ps["P_max"], pb.ps["P_unit"], "d")) - 1e-6)))
        e_ = float(rng.uniform(0.01, 0.6))
        om, M0 = float(rng.uniform(-3.1, 3.1)), float(rng.uniform(-3.1, 3.1))
        s_du = float(10 ** rng.uniform(-2, 0)) * gen.conv(1, "km/s", du)
        x = lin.mu + rng.normal(size=lin.L) * np.sqrt(np.concatenate([[lin.var_K(P_d, e_)], lin.lam_rest])) * 0.7
        ob = mcmc.evaluate(fb, vb, pb.ps, du, n_off, (P_d, e_, om, M0, s_du), x)
        ot = mcmc.evaluate(ft, vt, p2, du2, n_off, (P_d, e_, om, M0, s_du * f_data), x * f_data)
        if ob is None or ot is None:
            ctx.count("mcmc_twins_unmapped")
            return
        ctx.evaluations += 1
        ctx.count("mcmc_twin_points")
        ctx.distinct.add(repr(("mcmc-twin",) + cls))
        rv_b, ll_b_, lp_b_ = ob
        rv_t, ll_t_, lp_t_ = ot
        dlogp.append(float(lp_t_) - float(lp_b_))
        mag = max(mag, abs(float(lp_t_)), abs(float(lp_b_)))
        scale = np.max(np.abs(rv_b)) + abs(x[0]) + 1e-9
        if np.max(np.abs(rv_t / f_data - rv_b)) > 1e-6 * scale:
            ctx.violation("mcmc-model-not-unit-invariant", "model_rv of the twin, converted back, differs from the base model by %.3g "
                          "(scale %.3g) after re-expressing %s" % (np.max(np.abs(rv_t / f_data - rv_b)), scale, wdesc["transformed"]), wdesc)
            return
        want = float(ll_b_) - n_ep * np.log(f_data)
        if abs(float(ll_t_) - want) > 1e-6 * (1 + abs(want)):
            ctx.violation("mcmc-model-not-unit-invariant", "ln_likelihood of the MCMC model: twin %.10g, base - n ln(ratio) = %.10g after "
                          "re-expressing %s (data %s with errors in %s)" % (float(ll_t_), want, wdesc["transformed"], du,
                                                                            [s_.get("err_unit") for s_ in pb.dspec["surveys"]]), wdesc)
            return
    # the two log-densities describe one posterior in two unit systems: they differ by a constant (Jacobians of the unit
    # changes), whatever the point
    if len(dlogp) >= 2 and np.all(np.isfinite(dlogp)):
        ctx.evaluations += 1
        # (the data term alone can be 1e5-1e9: the difference of two such sums resolves 1e-9 of their size at best)
        if np.ptp(dlogp) > 1e-6 + 1e-9 * mag:
            ctx.violation("mcmc-model-not-unit-invariant", "log-density of the MCMC model, twin minus base, is not constant over the "
                          "points (%s) after re-expressing %s" % (["%.6f" % x for x in dlogp], wdesc["transformed"]), wdesc)


def run(ctx):
    from thejoker import TheJoker
    recgen.install_child_recording()
    n = ctx.n(28, 150)
    for i in ctx.cases(n):
        rng = ctx.rng(i)
        pb = session.make_problem(rng, N=int(rng.choice([20, 80])), profile=str(rng.choice(["moderate", "flat"])))
        # keep the base problem well determined (an ill-determined row makes accepted sets incomparable): periods not
        # shorter than baseline / 300, eccentricities <= 0.6
        span = max(np.ptp(pb.lin.t), 1.0)
        pb.rows["e"] = np.minimum(np.asarray(pb.rows["e"]), 0.6)
        if True:
            pb.rows["P"] = np.maximum(pb.rows["P"], span / 300 * (1 + np.arange(pb.N) * 1e-6))
            o = np.argsort(pb.rows["P"], kind="stable")
            for k in pb.rows:
                pb.rows[k] = np.asarray(pb.rows[k])[o]
            pb.lib = gen.build_samples(pb.rows, units={"s": pb.du}, ln_prior=True)
            pb.tagP = np.asarray(pb.lib["P"].to_value("d"))
            pb.s_seen = pb.lib["s"].to_value(gen.U(pb.du))
        in_memory = bool(rng.random() < 0.5)
        seed = int(rng.integers(0, 2 ** 31))
        desc = dict(index=i, N=pb.N, in_memory=in_memory, K=pb.ps["K"]["kind"], poly_trend=pb.ps["poly_trend"],
                    n_offsets=pb.ps["n_offsets"], data_unit=pb.du, P_unit=pb.ps["P_unit"])
        try:
            recgen.reset()
            jb = TheJoker(pb.prior, rng=recgen.make(seed), tempfile_path=ctx.tmpdir)
            # cache path: half of the time through ONE user file whose path is re-used for every twin library
            use_file = (not in_memory) and bool(rng.random() < 0.5)
            fpath = os.path.join(ctx.tmpdir, "c07_library.hdf5")
            lib_b = pb.lib
            if use_file:
                pb.lib.write(fpath, overwrite=True)
                lib_b = fpath
            desc["library_as_reused_file"] = use_file
            ll_b = np.asarray(jb.marginal_ln_likelihood(pb.data, lib_b, in_memory=in_memory), dtype=float)
            out_b, lls_b = jb.rejection_sample(pb.data, lib_b, in_memory=in_memory, return_all_logprobs=True)
            u_b = [e for e in recgen.EVENTS if e["op"] == "uniform"][0]["result"]
            with np.errstate(all="ignore"):
                margin = np.min(np.abs(np.exp(lls_b - np.max(lls_b)) - np.asarray(u_b)))
            mvb = [e for e in recgen.EVENTS if e["op"] == "multivariate_normal"]
            tags_b = np.searchsorted(pb.tagP, np.asarray(out_b["P"].to_value("d")))
            tol_k = np.array([oracle.marginal(pb.lin, oracle.z_column(pb.lin, pb.tagP[r], pb.rows["e"][r], pb.rows["omega"][r],
                                                                      pb.rows["M0"][r]), pb.tagP[r], pb.rows["e"][r],
                                              pb.s_seen[r], want_post=False)["tol"] for r in range(pb.N)])
            # measured: how far each row's value moves when P, omega, M0, s move by the rounding of a unit conversion
            sens = np.array([oracle.input_ulp_sensitivity(pb.lin, pb.tagP[r], pb.rows["e"][r], pb.rows["omega"][r], pb.rows["M0"][r],
                                                          pb.s_seen[r]) for r in range(pb.N)])
        except Exception as e:
            ctx.exception(e, "base problem", desc)
            continue
        for tw in range(ctx.n(4, 8)):
            d2, p2, lib_units, what, f_data = transform(rng, pb)
            wdesc = dict(desc, transformed=sorted(what), data_unit_twin=d2["unit"], P_unit_twin=p2["P_unit"],
                         lib_units=lib_units, K_twin=p2["K"])
            try:
                data2 = gen.build_data(d2)
                prior2 = gen.build_prior(p2)
                lib2 = gen.build_samples(pb.rows, units=dict(lib_units), ln_prior=True)
                recgen.reset()
                jt = TheJoker(prior2, rng=recgen.make(seed), tempfile_path=ctx.tmpdir)
                lib2_obj = lib2
                if use_file:
                    lib2.write(fpath, overwrite=True)
                    lib2 = fpath
                ll_t = np.asarray(jt.marginal_ln_likelihood(data2, lib2, in_memory=in_memory), dtype=float)
                n_ep = len(pb.lin.t)
                want = ll_b - n_ep * np.log(f_data)
                # unit conversion changes the inputs by an ulp: the kernel tolerance is inflated by the sensitivity of the
                # Kepler column to the phase, |M| / (1-e)^2 (same allowance as C01's alternative-unit comparison)
                Mmax = 2 * np.pi * np.max(np.abs(pb.lin.t - pb.lin.t_ref)) / pb.tagP + 10
                tol = 1e-8 * (1 + np.abs(ll_b)) + 2 * tol_k * (1 + 0.05 * Mmax / (1 - np.asarray(pb.rows["e"])) ** 2) + 16 * sens
                ok = tol < 1e-4
                ctx.evaluations += int(np.sum(ok))
                ctx.count("rows_too_illconditioned", int(np.sum(~ok)))
                cls = (tuple(sorted(what)), "mem" if in_memory else "cache", pb.ps["K"]["kind"], pb.ps["poly_trend"], pb.ps["n_offsets"])
                ctx.distinct.add(repr(cls))
                dev = np.abs(ll_t - want)
                bad = ok & ~(dev <= tol)
                if np.any(bad):
                    r = int(np.argmax(np.where(bad, dev / tol, 0)))
                    ctx.violation("likelihood-not-unit-invariant", "row %d: ll_twin=%.12g, ll_base - n ln(ratio) = %.12g "
                                  "(|diff| %.3g, allowed %.3g; %d of %d rows) after re-expressing %s in other units"
                                  % (r, ll_t[r], want[r], dev[r], tol[r], int(np.sum(bad)), pb.N, sorted(what)),
                                  dict(wdesc, row=r, P_day=float(pb.tagP[r]), e=float(pb.rows["e"][r])))
                    continue
                ctx.maxi("dev_over_tol", float(np.max(np.where(ok, dev / tol, 0))))
                # the very same library object (already evaluated against the base data above) against the twin data: nothing
                # it remembered from the first evaluation (packed arrays, unit conversions) may answer the second
                if "data" in what and tw % 2 == 0:
                    # ... and through the base problem's own prior object (physically the same prior as the twin's): whatever it
                    # remembered about the base data's unit must not be applied to the twin data
                    j_same = jt if tw % 4 == 0 else TheJoker(pb.prior, rng=np.random.default_rng(3), tempfile_path=ctx.tmpdir)
                    ll_same = np.asarray(j_same.marginal_ln_likelihood(data2, pb.lib, in_memory=True), dtype=float)
                    ctx.evaluations += 1
                    ctx.distinct.add(repr(("same-library-object-other-data-unit", cls[1], cls[2])))
                    bad2 = ok & ~(np.abs(ll_same - want) <= tol)
                    if np.any(bad2):
                        r = int(np.argmax(np.where(bad2, np.abs(ll_same - want) / tol, 0)))
                        ctx.violation("likelihood-not-unit-invariant", "the library object already used with the base data (%s), now with "
                                      "the same data in %s: row %d gives %.12g, expected %.12g" % (pb.du, d2["unit"], r, ll_same[r], want[r]),
                                      dict(wdesc, row=r, reused_library_object=True))
                        continue
                # the MCMC continuation of the same two problems: at one physical point the data term of the model built by
                # setup_mcmc differs by exactly the same Jacobian, and the RV curves are the same curve in two units
                if tw == 0 and i % 2 == 0:
                    mcmc_twin(ctx, rng, pb, jb, jt, data2, prior2, p2, d2, f_data, n_ep, wdesc, cls)
                # accepted set and posterior values
                out_t = jt.rejection_sample(data2, lib2, in_memory=in_memory)
                if margin < 1e-7:
                    ctx.borderline += 1
                    continue
                if not np.all(ok):
                    # a row whose value is numerical noise (tolerance > 1e-4) can take any value in either run and
                    # change the maximum: the accepted sets are only comparable when every row is well determined
                    ctx.count("accepted_set_not_comparable_illconditioned_row")
                    continue
                tags_t = np.searchsorted(pb.tagP * (1 - 1e-12), np.asarray(out_t["P"].to_value("d"))) if False else \
                    np.array([int(np.argmin(np.abs(np.log(pb.tagP) - np.log(x)))) for x in np.asarray(out_t["P"].to_value("d"))])
                ctx.evaluations += 1
                if tags_t.tolist() != tags_b.tolist():
                    ctx.violation("accepted-set-not-unit-invariant", "equal seeds: base accepts rows %s..., twin %s... (transformed %s)"
                                  % (tags_b[:8].tolist(), tags_t[:8].tolist(), sorted(what)), wdesc)
                    continue
                # units of the outputs and physical equality of the linear parameters
                du2 = gen.U(d2["unit"])
                if not out_t["K"].unit.is_equivalent(du2) or out_t["K"].unit != du2:
                    ctx.violation("output-unit", "K column of the twin has unit %s, data unit is %s" % (out_t["K"].unit, du2), wdesc)
                # the linear parameters: (i) the (mean, cov) handed to the generator must be physically equal; (ii) each
                # draw must have the same Mahalanobis distance from its mean. Direct equality of the variates is NOT
                # demanded: numpy factors cov by SVD, and a 1e-16 change of cov may flip the sign/order of nearly
                # degenerate singular vectors, mapping the same standard normals to another (equally valid) draw.
                mvt = [e for e in recgen.EVENTS if e["op"] == "multivariate_normal"]
                Lp = pb.lin.L
                scale = np.array([f_data] * (2 + pb.ps["n_offsets"]) + [f_data] * (pb.ps["poly_trend"] - 1))
                names_l = ["K", "v0"] + ["dv0_%d" % k for k in range(1, pb.ps["n_offsets"] + 1)] + \
                          ["v%d" % k for k in range(1, pb.ps["poly_trend"])]
                import astropy.units as _u
                un_b = [gen.U(pb.du)] * (2 + pb.ps["n_offsets"]) + [gen.U(pb.du) / _u.day ** k for k in range(1, pb.ps["poly_trend"])]
                if len(mvt) == len(mvb) and len(out_t) == len(out_b) == len(mvb):
                    Xb = np.stack([np.asarray(out_b[nm].to_value(un)) for nm, un in zip(names_l, un_b)], axis=1)
                    Xt = np.stack([np.asarray(out_t[nm].to_value(un)) for nm, un in zip(names_l, un_b)], axis=1)
                    for r, (eb, et) in enumerate(zip(mvb, mvt)):
                        mb, cb = np.asarray(eb["mean"]), np.asarray(eb["cov"])
                        mt_, ct_ = np.asarray(et["mean"]) / scale, np.asarray(et["cov"]) / np.outer(scale, scale)
                        sd = np.sqrt(np.diag(cb))
                        cn = np.linalg.cond(cb)
                        tolr = 1e-6 + 1e3 * oracle.EPS * cn
                        if tolr > 1e-3:
                            ctx.count("posterior_rows_too_illconditioned")
                            continue
                        ctx.evaluations += 1
                        dm = np.max(np.abs(mt_ - mb) / sd)
                        dc = np.max(np.abs(ct_ - cb) / np.outer(sd, sd))
                        if dm > tolr or dc > tolr:
                            ctx.violation("posterior-not-unit-invariant", "accepted row %d: conditional posterior (mean, cov) of the linear "
                                          "parameters differs between base and twin: |dmean|/sd %.3g, |dcov|/(sd sd) %.3g (allowed %.3g)"
                                          % (r, dm, dc, tolr), wdesc)
                            break
                        qb = float((Xb[r] - mb) @ np.linalg.solve(cb, Xb[r] - mb))
                        qt = float((Xt[r] - mb) @ np.linalg.solve(cb, Xt[r] - mb))
                        if abs(qb - qt) > 1e-5 * (1 + qb) + 100 * tolr * (1 + qb):
                            ctx.violation("posterior-not-unit-invariant", "accepted row %d: the twin's draw has Mahalanobis distance %.8g "
                                          "from the posterior mean, the base draw %.8g" % (r, qt, qb), wdesc)
                            break
                        if np.max(np.abs(Xb[r] - Xt[r]) / sd) > 1e-5:
                            ctx.count("draws_differ_by_svd_factor_only")
                # the jitter too: physically the same in base and twin (km/s), whatever unit the prior / library / data quote it in
                for nm, want_u in (("P", "d"), ("omega", "rad"), ("M0", "rad"), ("s", "km/s")):
                    a = np.asarray(out_b[nm].to_value(gen.U(want_u)))
                    b = np.asarray(out_t[nm].to_value(gen.U(want_u)))
                    if len(a) == len(b) and not np.allclose(a, b, rtol=1e-12 if nm != "s" else 1e-9, atol=1e-12):
                        ctx.violation("nonlinear-not-unit-invariant", "%s of an accepted row differs physically between base and twin" % nm, wdesc)
                        break
            except Exception as e:
                ctx.exception(e, "twin problem", wdesc)
        if i % 10 == 0:
            ctx.sample(dict(desc, last_twin=sorted(what), ll_base_head=ll_b[:3], accepted=tags_b[:6]))
