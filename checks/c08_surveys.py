META = {
    "rule": ("seeded multi-survey layouts (2-4 surveys of 1-12 epochs; disjoint in time in either order, interleaved, "
             "alternating, identical epochs across surveys, one-epoch surveys; list and dict input with integer/string "
             "keys in any insertion order; mixed velocity units) passed to the real validate_prepare_data under a "
             "contract (merged data = time-sorted union; ids[row] names the survey that row came from, decided through "
             "unique velocity tags; each offset column selects all rows of exactly one survey; list input: source 0 is "
             "the reference, source k gets dv0_k) and to TheJoker.marginal_ln_likelihood, whose values are compared "
             "with the closed-form marginal of the correctly labelled union. distinct_nontrivial = distinct (n_surveys, "
             "layout, form, key kind, ties?, chronological?) classes checked."),
    "shards": {"quick": 2, "thorough": 16},
    "timeout": {"quick": 900, "thorough": 3600},
    "min_evaluations": {"quick": 300, "thorough": 5000},
    "assumptions": ["velocity tags are unique so a merged row identifies its source row",
                    "for dict input any survey may be the offset-free reference (the likelihood oracle tries every assignment)"],
}
# ---- END META ----
import itertools

import numpy as np

from tjverif import gen, mcmc, monitors as M, oracle


def check_plot_offsets(ctx, rng, TheJoker, prior, data, samples, dspec, ns, du, desc, cls, ps_):
    """plot_rv_curves(apply_mean_v0_offset=True) must subtract mean(dv0_k) from exactly the epochs of the survey that the
    likelihood ties to dv0_k (list: the k-th further source; dict: the k-th key in sorted order), nothing from the
    reference survey's. Read back from the artists the call puts on the axes."""
    import matplotlib
    matplotlib.use("Agg")
    import matplotlib.pyplot as plt
    from thejoker.plot import plot_rv_curves
    post = TheJoker(prior, rng=np.random.default_rng(11)).rejection_sample(data, samples, in_memory=True, max_posterior_samples=4)
    fig, ax = plt.subplots()
    try:
        plot_rv_curves(post, data=data, ax=ax, rv_unit=gen.U(du), apply_mean_v0_offset=True, max_t_grid=64)
        conts = [c for c in ax.containers if type(c).__name__ == "ErrorbarContainer"]
        if not conts:
            ctx.count("plot_without_errorbar_container")
            return
        x = np.asarray(conts[0].lines[0].get_xdata(), dtype=float)
        y = np.asarray(conts[0].lines[0].get_ydata(), dtype=float)
    finally:
        plt.close(fig)
    t, yv, sg, lab, t_ref = gen.merged(dspec)
    if dspec["form"] == "dict":
        srt = sorted(dspec["keys"])
        col_of = [srt.index(k) for k in dspec["keys"]]          # survey j -> offset column (0 = reference)
    else:
        col_of = list(range(ns))
    # "posteriors are those of the correctly labelled data": each returned row's linear parameters, read by NAME, are a draw of
    # N(a, A) of the correctly labelled union (squared Mahalanobis distance is chi^2 with <= 8 degrees of freedom: > 300 never)
    import astropy.units as u_
    lin_c = gen.linear_problem(dspec, ps_, tuple(col_of))
    for r in range(len(post)):
        P_d = float(post["P"][r].to_value(u_.day)); e_ = float(post["e"][r])
        om_ = float(post["omega"][r].to_value(u_.rad)); M0_ = float(post["M0"][r].to_value(u_.rad))
        s_ = float(post["s"][r].to_value(gen.U(du)))
        z_ = oracle.z_column(lin_c, P_d, e_, om_, M0_)
        ref_ = oracle.marginal(lin_c, z_, P_d, e_, s_, want_post=True)
        if ref_["tol"] > 1e-4 or np.linalg.cond(ref_["A"]) > 1e10:
            continue
        x_ = [float(post["K"][r].to_value(gen.U(du))), float(post["v0"][r].to_value(gen.U(du)))]
        x_ += [float(post["dv0_%d" % k][r].to_value(gen.U(du))) for k in range(1, ns)]
        x_ += [float(post["v%d" % i_][r].to_value(gen.U(du) / u_.day ** i_)) for i_ in range(1, ps_["poly_trend"])]
        dx_ = np.asarray(x_) - ref_["a"]
        q_ = float(dx_ @ np.linalg.solve(ref_["A"], dx_))
        ctx.evaluations += 1
        ctx.maxi("max_mahalanobis2_of_posterior_row", q_)
        if q_ > 300:
            ctx.violation("posterior-row-not-of-the-labelled-data", "a returned row's (K, v0, dv0_*, v1..) read by name is %.3g (squared "
                          "Mahalanobis) away from the conditional posterior of the correctly labelled union" % q_, dict(desc, row=r, x=x_))
            break
    want = yv.copy()
    for j in range(ns):
        if col_of[j] > 0:
            off = post["dv0_%d" % col_of[j]].to_value(gen.U(du))
            want[lab == j] -= np.mean(off)
    ctx.evaluations += 1
    ctx.count("plot_offset_calls_checked")
    ctx.distinct.add(repr(("plot-offsets",) + cls))
    if len(x) != len(t) or np.max(np.abs(np.sort(x) - t)) > 1e-6:
        ctx.violation("plot-not-the-union", "plot_rv_curves drew %d data points, the merged data have %d" % (len(x), len(t)), desc)
        return
    o = np.argsort(x, kind="stable")
    scale = np.max(np.abs(yv)) + 1e-9
    if np.max(np.abs(y[o] - want)) > 1e-9 * scale:
        removed = (yv - y[o])
        ctx.violation("plot-offset-on-wrong-survey", "plot_rv_curves removed %s from the epochs of surveys %s; the offsets tied to those "
                      "surveys are %s" % (np.round(removed, 6).tolist()[:12], lab.tolist()[:12],
                                          np.round(yv - want, 6).tolist()[:12]), desc)


def run(ctx):
    M.install_validate_prepare_data()
    from thejoker import TheJoker
    from thejoker.data_helpers import validate_prepare_data
    n = ctx.n(220, 900)
    for i in ctx.cases(n):
        rng = ctx.rng(i)
        ns = int(rng.choice([2, 3, 4], p=[.5, .3, .2]))
        layout = str(rng.choice(["interleaved", "disjoint", "disjoint-reversed", "alternating"]))
        nep = int(rng.choice([ns, ns + 1, 6, 9, 12, 20]))
        if rng.random() < 0.06:
            # many surveys (two-digit offset names), chronological so that the known label defect stays out
            ns = int(rng.choice([11, 12, 14]))
            layout = "disjoint"
            nep = ns + int(rng.integers(0, 6))
        dspec = gen.gen_data_spec(rng, n_surveys=ns, n_epochs=max(nep, ns), layout=layout,
                                  err_scale=float(10 ** rng.uniform(-1.5, 0)))
        if ns > 4:
            dspec["form"], dspec["keys"] = "list", None     # the key pools of the generator hold four names
        poly = int(rng.choice([1, 2, 3], p=[.5, .3, .2]))
        ps = gen.gen_prior_spec(rng, dspec["unit"], n_offsets=ns - 1, poly_trend=poly)
        t, y, sg, lab, t_ref = gen.merged(dspec)
        ties = bool(np.any(np.diff(t) == 0))
        chrono = bool(np.all(np.diff(lab) >= 0))      # concatenation order == time order of labels
        keykind = "list" if dspec["form"] == "list" else type(dspec["keys"][0]).__name__
        cls = (ns, layout, dspec["form"], keykind, ties, chrono, poly)
        desc = dict(index=i, n_surveys=ns, layout=layout, form=dspec["form"], keys=dspec["keys"], poly_trend=poly,
                    n_epochs=len(t), ties=ties, chronological=chrono,
                    surveys=[dict(unit=s["unit"], t=s["t"][:6], rv=s["rv"][:6]) for s in dspec["surveys"]])
        try:
            data = gen.build_data(dspec)
            M.drain()
            validate_prepare_data(data, poly, ns - 1)
            ctx.evaluations += 1
            ctx.distinct.add(repr(("contract",) + cls))
            for f in M.drain():
                if f["monitor"] == "C08":
                    ctx.violation(f["key"], f["what"], desc)
                elif f["monitor"] == "C08-monitor-error":
                    ctx.inconclusive = "monitor error " + f["what"]
            # end to end: likelihood of the correctly labelled union
            prior = gen.build_prior(ps)
            rows = gen.gen_rows(rng, 6, dspec, e_class="mild")
            du = dspec["unit"]
            samples = gen.build_samples(rows, units={"s": du})
            s_seen = samples["s"].to_value(gen.U(du))
            ll = np.asarray(TheJoker(prior).marginal_ln_likelihood(data, samples, in_memory=bool(rng.random() < 0.5)))
            M.drain()
            assignments = [tuple(range(ns))] if dspec["form"] == "list" else list(itertools.permutations(range(ns)))
            lins = {a: gen.linear_problem(dspec, ps, a) for a in assignments}
            ok_assign = set(assignments)
            tight = 0
            worst = None
            for r in range(len(ll)):
                z = oracle.z_column(lins[assignments[0]], rows["P"][r], rows["e"][r], rows["omega"][r], rows["M0"][r])
                good = set()
                for a in assignments:
                    ref = oracle.marginal(lins[a], z, rows["P"][r], rows["e"][r], s_seen[r], want_post=False)
                    if ref["tol"] > 1e-4:
                        good.add(a)
                        continue
                    tight += 1
                    if np.isfinite(ll[r]) and abs(ll[r] - ref["ll"]) <= ref["tol"]:
                        good.add(a)
                    elif a == assignments[0]:
                        worst = (r, float(ll[r]), ref["ll"], ref["tol"])
                ok_assign &= good
            if tight:
                ctx.evaluations += 1
                ctx.distinct.add(repr(("likelihood",) + cls))
                if not ok_assign:
                    # classify: does the concatenation-order labelling reproduce the values?
                    key = "likelihood-of-mislabelled-data"
                    code_assign = tuple(range(ns))
                    if dspec["form"] == "dict":
                        srt = sorted(dspec["keys"])
                        code_assign = tuple(srt.index(k) for k in dspec["keys"])
                    # (the listed finding needs a non-chronological input; on chronological input, ties included, the pinned
                    # code labels correctly and nothing is explained away)
                    for v in (gen.tied_label_variants(dspec) if not chrono else []):
                        lb = gen.linear_problem(dspec, ps, code_assign, concat_labels=v)
                        allok = True
                        for r in range(len(ll)):
                            z = oracle.z_column(lb, rows["P"][r], rows["e"][r], rows["omega"][r], rows["M0"][r])
                            ref = oracle.marginal(lb, z, rows["P"][r], rows["e"][r], s_seen[r], want_post=False)
                            if not (abs(ll[r] - ref["ll"]) <= ref["tol"]):
                                allok = False
                                break
                        if allok:
                            key = "survey-labels-not-time-sorted"
                            break
                    ctx.violation(key, "marginal_ln_likelihood of list/dict data is not that of the correctly labelled "
                                  "union under any assignment of surveys to offsets (e.g. row %s: %.10g vs %.10g, tol %.2g)"
                                  % (worst if worst else ("?", 0, 0, 0)), dict(desc, dspec=dspec, ps=ps))
            # ---- "posteriors are those of the correctly labelled data": the model setup_mcmc assembles for the same
            # surveys (chronological lists only: the known label defect must stay out of this monitor)
            if chrono and ns <= 4 and i % 4 == 0:
                joker = TheJoker(prior, rng=np.random.default_rng([ctx.seed, i]))
                post = joker.rejection_sample(data, samples, in_memory=True, max_posterior_samples=1)
                with prior.model:
                    joker.setup_mcmc(data, post)
                f, vnames = mcmc.compile_model_rv(prior.model)
                # which survey dv0_k belongs to: the k-th further source of a list, the k-th key in sorted order of a dict
                if dspec["form"] == "dict":
                    srt_ = sorted(dspec["keys"])
                    lin_m = gen.linear_problem(dspec, ps, tuple(srt_.index(k_) for k_ in dspec["keys"]))
                else:
                    lin_m = lins[assignments[0]]
                dev = mcmc.model_rv_deviation(f, vnames, ps, du, lin_m, ns - 1, rng)
                if dev is None:
                    ctx.count("mcmc_slices_unmapped")
                else:
                    ctx.evaluations += 1
                    ctx.count("mcmc_models_checked")
                    ctx.distinct.add(repr(("mcmc-model",) + cls))
                    if dev > 1e-7:
                        ctx.violation("mcmc-model-of-mislabelled-data", "the model built by setup_mcmc gives survey epochs another "
                                      "offset/trend than the correctly labelled union (relative deviation %.3g; poly_trend=%d, "
                                      "%d surveys)" % (dev, poly, ns), dict(desc, dspec=dspec, ps=ps))
            # ---- the same observations split into surveys at another boundary, on the SAME sampler object: nothing remembered
            # from the first call (labels, design matrix) may answer the second
            if chrono and ns <= 4 and i % 3 == 1 and not ties:
                ks = [k for k in range(ns - 1) if len(dspec["surveys"][k]["t"]) >= 2]
                if ks:
                    import copy
                    k = int(ks[int(rng.integers(0, len(ks)))])
                    d2 = copy.deepcopy(dspec)
                    a, b = d2["surveys"][k], d2["surveys"][k + 1]
                    j = int(np.argmax(a["t"]))                     # the last epoch of survey k joins survey k+1
                    b["t"].append(a["t"].pop(j))
                    b["rv"].append(gen.conv(a["rv"].pop(j), a["unit"], b["unit"]))
                    b["err"].append(gen.conv(a["err"].pop(j), a.get("err_unit", a["unit"]), b.get("err_unit", b["unit"])))
                    jk = TheJoker(prior)
                    first = np.asarray(jk.marginal_ln_likelihood(data, samples, in_memory=True))
                    second = np.asarray(jk.marginal_ln_likelihood(gen.build_data(d2), samples, in_memory=True))
                    M.drain()
                    a0 = assignments[0] if dspec["form"] == "list" else None
                    cands = [a0] if a0 is not None else assignments
                    okc = False
                    worst2 = None
                    for a_ in cands:
                        lin2 = gen.linear_problem(d2, ps, a_)
                        allok = True
                        for r in range(len(second)):
                            z = oracle.z_column(lin2, rows["P"][r], rows["e"][r], rows["omega"][r], rows["M0"][r])
                            ref = oracle.marginal(lin2, z, rows["P"][r], rows["e"][r], s_seen[r], want_post=False)
                            if ref["tol"] <= 1e-4 and not (abs(second[r] - ref["ll"]) <= ref["tol"]):
                                allok = False
                                worst2 = (r, float(second[r]), ref["ll"])
                                break
                        okc |= allok
                    ctx.evaluations += 1
                    ctx.distinct.add(repr(("resplit-second-call",) + cls))
                    if not okc:
                        ctx.violation("second-call-uses-first-call-labels", "the same observations split at another survey boundary, "
                                      "evaluated by the same TheJoker: values are not those of the new labelling (row %s: %.10g vs "
                                      "%.10g; %d of %d equal the first call's)" % (worst2 + (int(np.sum(second == first)), len(second))),
                                      dict(desc, moved_from_survey=k))
            # ---- the plotting helper that removes each survey's mean offset from its own epochs (anchored in plot.py)
            if chrono and ns <= 4 and i % 4 == 2 and not ties:
                check_plot_offsets(ctx, rng, TheJoker, prior, data, samples, dspec, ns, du, desc, cls, ps)
            if i % 60 == 0:
                ctx.sample(dict(desc, ll_head=ll[:3]))
        except Exception as e:
            ctx.exception(e, "multi-survey preparation", desc)
    ctx.counters["validate_prepare_data_calls"] = M.COUNTS.get("validate_prepare_data", 0)
