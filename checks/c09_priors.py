META = {
    "rule": ("deterministic monitors: pm.logp of the exported distributions (UniformLog, Kipping13*, FixedCompanionMass) on "
             "grids inside / on the edge of / outside the support vs the analytic normalised log-density (1e-10; -inf outside) "
             "and their numerical integral over the support (1e-6); the ln_prior column of prior.sample(return_logprobs=True) "
             "minus the analytic joint log-density of each row (P, e, s and - with generate_linear - N(K | mu, sigma_K(P_row, "
             "e_row)), trend and offset Normals) must be one constant (spread < 1e-8). Statistical monitors on 2e4 (quick) / "
             "1e5 (thorough) draws per configuration: KS against the analytic CDF for P, e, omega, M0, the standardised "
             "K/sigma_K(P,e), trend terms (p > 1e-9 each), all draws inside the support. Configurations: (P_min, P_max) over "
             "six decades and units, sigma_K0, P0, max_K (cap active for none/some/all rows), sigma_v, poly_trend 1-3, "
             "offsets, generate_linear on/off. distinct_nontrivial = distinct (monitor, distribution/parameter, configuration "
             "class) triples."),
    "shards": {"quick": 4, "thorough": 16},
    "timeout": {"quick": 900, "thorough": 3600},
    "min_evaluations": {"quick": 100, "thorough": 1500},
    "assumptions": ["pymc's Beta/Normal/LogNormal logp and numpy's samplers are trusted; only what thejoker defines or wires up is judged",
                    "a KS test at 2e4-1e5 draws resolves CDF differences >~ 0.01-0.02; finer sampler errors only show through logp"],
}
# ---- END META ----
import math

import numpy as np

from tjverif import gen


def run(ctx):
    import astropy.units as u
    import pymc as pm
    from scipy import integrate, stats
    from thejoker.distributions import (FixedCompanionMass, Kipping13Global, Kipping13Long, Kipping13Short, UniformLog)

    def logp_of(dist, x):
        return np.asarray(pm.logp(dist, np.asarray(x, dtype=float)).eval(), dtype=float)

    ncfg = ctx.n(4, 12)
    # ------------------------------------------------------------------ (a) exported distributions
    for i in ctx.cases(ncfg * 2):
        rng = ctx.rng(i)
        a = float(10 ** rng.uniform(-3, 2))
        b = a * float(10 ** rng.uniform(0.05, 5))
        inside = np.exp(rng.uniform(np.log(a), np.log(b), 30))
        pts = np.concatenate([inside, [a, b, math.sqrt(a * b)]])
        outside = np.array([a * 0.5, a * (1 - 1e-9), b * (1 + 1e-9), b * 3, 1e-300])
        desc = dict(index=i, dist="UniformLog", a=a, b=b)
        try:
            got = logp_of(UniformLog.dist(a, b), pts)
            want = -np.log(pts) - math.log(math.log(b / a))
            ctx.evaluations += 1
            ctx.distinct.add(repr(("logp-inside", "UniformLog", "wide" if b / a > 100 else "narrow")))
            if not np.allclose(got, want, rtol=0, atol=1e-10 * (1 + np.abs(want))):
                k = int(np.argmax(np.abs(got - want)))
                key = "uniformlog-logp-wrong"
                if np.allclose(got, -pts - math.log(math.log(b / a)), rtol=1e-12, atol=1e-12):
                    key = "uniformlog-logp-minus-x"
                ctx.violation(key, "UniformLog(%.4g, %.4g).logp(%.6g) = %.10g, log-density is %.10g"
                              % (a, b, pts[k], got[k], want[k]), dict(desc, x=pts[k]))
            got_o = logp_of(UniformLog.dist(a, b), outside)
            ctx.evaluations += 1
            ctx.distinct.add(repr(("logp-outside", "UniformLog")))
            if not np.all(np.isneginf(got_o)):
                ctx.violation("uniformlog-logp-finite-outside-support", "UniformLog(%.4g, %.4g).logp(%s) = %s outside the support "
                              "(must be -inf)" % (a, b, outside[:3], got_o[:3]), desc)
            else:
                val, err = integrate.quad(lambda lx: float(np.exp(logp_of(UniformLog.dist(a, b), [math.exp(lx)])[0] + lx)),
                                          math.log(a), math.log(b), limit=200)
                ctx.evaluations += 1
                ctx.distinct.add(repr(("normalisation", "UniformLog")))
                if abs(val - 1) > 1e-6:
                    ctx.violation("uniformlog-not-normalised", "integral of exp(logp) over [a,b] = %.8g" % val, desc)
            # draws
            nd = ctx.n(20000, 100000)
            dr = np.asarray(pm.draw(UniformLog.dist(a, b), draws=nd, random_seed=np.random.default_rng([ctx.seed, i])))
            ctx.evaluations += 1
            ctx.distinct.add(repr(("draws", "UniformLog", "wide" if b / a > 100 else "narrow")))
            if dr.min() < a * (1 - 1e-12) or dr.max() > b * (1 + 1e-12):
                ctx.violation("draw-outside-support", "UniformLog draw outside [a,b]: [%g, %g]" % (dr.min(), dr.max()), desc)
            pval = stats.kstest(np.log(dr), stats.uniform(loc=math.log(a), scale=math.log(b / a)).cdf).pvalue
            ctx.maxi("min_neglog10_p", -math.log10(max(pval, 1e-300)))
            if pval < 1e-9:
                ctx.violation("draws-not-loguniform", "UniformLog draws fail KS against the log-uniform CDF (p=%.2g)" % pval, desc)
        except Exception as e:
            ctx.exception(e, "UniformLog", desc)
        # Kipping / FixedCompanionMass
        try:
            for cls, (al, be) in ((Kipping13Global, (0.867, 3.03)), (Kipping13Long, (1.12, 3.09)), (Kipping13Short, (0.697, 3.27))):
                xs = rng.uniform(1e-3, 0.999, 12)
                got = logp_of(cls.dist(), xs)
                want = stats.beta(al, be).logpdf(xs)
                ctx.evaluations += 1
                ctx.distinct.add(repr(("logp-inside", cls.__name__)))
                if not np.allclose(got, want, rtol=0, atol=1e-9):
                    ctx.violation("kipping-logp-wrong", "%s.logp differs from Beta(%g,%g)" % (cls.__name__, al, be), dict(index=i))
                if not np.all(np.isneginf(logp_of(cls.dist(), [-0.2, 1.3]))):
                    ctx.violation("kipping-logp-finite-outside-support", "%s.logp finite outside [0,1]" % cls.__name__, dict(index=i))
            P = float(10 ** rng.uniform(-1, 3))
            ee = float(rng.uniform(0, 0.95))
            sK0 = float(10 ** rng.uniform(0, 2))
            P0 = float(10 ** rng.uniform(1, 3))
            maxK = float(10 ** rng.uniform(0.5, 3))
            muK = float(rng.normal() * 3)
            ku = str(rng.choice(["km/s", "m/s"]))
            d = FixedCompanionMass.dist(P=P, e=ee, sigma_K0=sK0 * gen.U(ku), P0=P0 * u.day, mu=muK, max_K=maxK * gen.U(ku))
            sig = min(sK0 * (P / P0) ** (-1 / 3) / math.sqrt(1 - ee ** 2), maxK)
            xs = rng.normal(size=8) * sig * 2 + muK
            got = logp_of(d, xs)
            want = stats.norm(muK, sig).logpdf(xs)
            ctx.evaluations += 1
            ctx.distinct.add(repr(("logp-inside", "FixedCompanionMass", "capped" if sig == maxK else "uncapped")))
            if not np.allclose(got, want, rtol=0, atol=1e-9 * (1 + np.abs(want))):
                ctx.violation("fixedcompanionmass-logp-wrong", "FixedCompanionMass logp at P=%.4g e=%.3g differs from N(mu, min(sigma_K0 "
                              "(P/P0)^(-1/3)/sqrt(1-e^2), max_K)=%.6g): %s vs %s" % (P, ee, sig, got[:2], want[:2]),
                              dict(index=i, P=P, e=ee, sigma_K0=sK0, P0=P0, max_K=maxK, unit=ku))
        except Exception as e:
            ctx.exception(e, "Kipping/FixedCompanionMass", dict(index=i))

    # ------------------------------------------------------------------ (b)+(c) JokerPrior.default wiring
    from thejoker import JokerPrior
    for i in ctx.cases(ncfg):
        rng = ctx.rng(1000 + i)
        pu = str(rng.choice(["d", "yr", "h"]))
        Pmin_d = float(10 ** rng.uniform(-1, 2))
        Pmax_d = Pmin_d * float(10 ** rng.uniform(0.5, 4))
        poly = int(rng.choice([1, 2, 3]))
        noff = int(rng.choice([0, 1]))
        ku = str(rng.choice(["km/s", "m/s"]))
        sK0 = float(10 ** rng.uniform(0.5, 2.5)) * gen.conv(1, "km/s", ku)
        P0u = str(rng.choice(["yr", "d"]))
        P0 = gen.conv(float(10 ** rng.uniform(1.5, 3)), "d", P0u)
        gl = bool(rng.random() < 0.7)
        svs = [float(10 ** rng.uniform(0, 2)) * 10.0 ** (-2 * k) for k in range(poly)]
        desc = dict(index=i, P_unit=pu, P_min_d=Pmin_d, P_max_d=Pmax_d, poly_trend=poly, n_offsets=noff, K_unit=ku,
                    sigma_K0=sK0, P0=P0, P0_unit=P0u, generate_linear=gl)
        try:
            import thejoker.units as xu
            s_kind = str(rng.choice(["const", "lognormal"], p=[.5, .5]))
            s_mu, s_sd = float(rng.uniform(-2, 1)), float(rng.uniform(0.3, 1.2))
            desc["jitter_prior"] = s_kind
            with pm.Model() as model:
                offs = [xu.with_unit(pm.Normal("dv0_%d" % (k + 1), 1.0, 4.0), u.km / u.s) for k in range(noff)]
                extra = {}
                if s_kind == "lognormal":
                    extra["pars"] = {"s": xu.with_unit(pm.LogNormal("s", s_mu, s_sd), u.km / u.s)}
                # the eccentricity prior: the default (Kipping13Global) or one of the other exported Beta priors given by the user
                e_kind = ["default", "default", "short", "long"][(i + ctx.shard) % 4]
                e_ab = {"default": (0.867, 3.03), "short": (0.697, 3.27), "long": (1.12, 3.09)}[e_kind]
                if e_kind != "default":
                    extra.setdefault("pars", {})["e"] = xu.with_unit({"short": Kipping13Short, "long": Kipping13Long}[e_kind]("e"), u.one)
                desc["e_prior"] = e_kind
                # the two bounds of the period prior may be quoted in different units (1.5 d ... 2 yr); the variable is in P_min's
                pu_max = pu if (i + ctx.shard) % 3 else str(rng.choice([x for x in ["d", "yr", "h"] if x != pu]))
                desc["P_max_unit"] = pu_max
                prior = JokerPrior.default(P_min=gen.conv(Pmin_d, "d", pu) * gen.U(pu), P_max=gen.conv(Pmax_d, "d", pu_max) * gen.U(pu_max),
                                           sigma_K0=sK0 * gen.U(ku), P0=P0 * gen.U(P0u),
                                           sigma_v=[sv * u.km / u.s / u.day ** k for k, sv in enumerate(svs)],
                                           poly_trend=poly, v0_offsets=offs or None, model=model, **extra)
            nd = ctx.n(20000, 100000)
            if i % 4 == 1:
                # straddles 2^16 / 2^17 and 1e5 (internal blocking); alternates between the shards
                nd = int(65536 * (1 + (ctx.shard + i // 4) % 2) + rng.integers(1, 30000))
            elif i % 4 == 3:
                nd = int(rng.choice([1, 2, 3, 17, 257, 1000]))                              # tiny requests
            desc["n_draws"] = nd
            # the seed as a Generator or as a plain integer (both are what pm.draw's random_seed takes)
            int_seed = bool((ctx.shard + i) % 3 == 1) or (i % 4 == 1 and nd > 100000 and (ctx.shard // 2 + i // 4) % 2 == 0)
            desc["seed_kind"] = "int" if int_seed else "Generator"
            seed_arg = int(1000003 * ctx.seed + 1009 * ctx.shard + i + 17) if int_seed else np.random.default_rng([ctx.seed, ctx.shard, i])
            smp = prior.sample(size=nd, generate_linear=gl, return_logprobs=True, rng=seed_arg)
            # independent draws of continuous variables never repeat: a library assembled from pieces that restart the
            # same stream does
            trip = np.stack([np.asarray(smp["P"].value, float), np.asarray(smp["e"], float), np.asarray(smp["omega"].value, float)], axis=1)
            n_unique = len(np.unique(trip, axis=0))
            ctx.evaluations += 1
            if n_unique != nd:
                ctx.violation("draws-repeat", "prior.sample(size=%d): only %d distinct (P, e, omega) rows - rows are repeated"
                              % (nd, n_unique), desc)
            Pd = np.asarray(smp["P"].to_value(u.day), dtype=float)
            ev = np.asarray(smp["e"], dtype=float)
            cfgcls = (pu, poly, noff, gl, ku, s_kind, e_kind)
            # support
            ctx.evaluations += 1
            ctx.distinct.add(repr(("support",) + cfgcls))
            if Pd.min() < Pmin_d * (1 - 1e-9) or Pd.max() > Pmax_d * (1 + 1e-9) or ev.min() < 0 or ev.max() > 1:
                ctx.violation("draw-outside-support", "prior.sample: P in [%g,%g] d (prior [%g,%g]), e in [%g,%g]"
                              % (Pd.min(), Pd.max(), Pmin_d, Pmax_d, ev.min(), ev.max()), desc)
            tests = [("P", np.log(Pd), stats.uniform(loc=math.log(Pmin_d), scale=math.log(Pmax_d / Pmin_d)).cdf),
                     ("e", ev, stats.beta(*e_ab).cdf)]
            for nm in ("omega", "M0"):
                ang = np.asarray(smp[nm].to_value(u.rad), dtype=float)
                lo = math.floor(ang.min() / math.pi) * math.pi if ang.min() < 0 else 0.0
                if ang.max() - ang.min() > 2 * math.pi * (1 + 1e-9):
                    ctx.violation("draw-outside-support", "%s spans more than 2 pi" % nm, desc)
                tests.append((nm, ang, stats.uniform(loc=-math.pi if ang.min() < 0 else 0.0, scale=2 * math.pi).cdf))
            if s_kind == "lognormal":
                sv_ = np.asarray(smp["s"].to_value(u.km / u.s), dtype=float)
                if sv_.min() <= 0:
                    ctx.violation("draw-outside-support", "sampled jitter <= 0", desc)
                tests.append(("s", np.log(sv_), stats.norm(s_mu, s_sd).cdf))
            if gl:
                Kv = np.asarray(smp["K"].to_value(gen.U(ku)), dtype=float)
                P0d = gen.conv(P0, P0u, "d")
                sig = np.minimum(sK0 * (Pd / P0d) ** (-1 / 3) / np.sqrt(1 - ev ** 2), gen.conv(500.0, "km/s", ku))
                desc["cap_fraction"] = float(np.mean(sig >= gen.conv(500.0, "km/s", ku)))
                tests.append(("K/sigma_K(P,e)", Kv / sig, stats.norm(0, 1).cdf))
                for k, sv in enumerate(svs):
                    tests.append(("v%d" % k, np.asarray(smp["v%d" % k].to_value(u.km / u.s / u.day ** k)) / sv, stats.norm(0, 1).cdf))
                for k in range(noff):
                    tests.append(("dv0_%d" % (k + 1), (np.asarray(smp["dv0_%d" % (k + 1)].to_value(u.km / u.s)) - 1.0) / 4.0,
                                  stats.norm(0, 1).cdf))
            for nm, xs, cdf in tests:
                pval = stats.kstest(xs, cdf).pvalue
                ctx.evaluations += 1
                ctx.distinct.add(repr(("ks", nm) + cfgcls))
                ctx.maxi("min_neglog10_p", -math.log10(max(pval, 1e-300)))
                if pval < 1e-9:
                    ctx.violation("draws-do-not-follow-density", "prior.sample: %s fails KS against its declared density (p=%.2g, n=%d)"
                                  % (nm, pval, nd), dict(desc, parameter=nm))
            # ln_prior column vs analytic joint density
            lp = np.asarray(smp["ln_prior"], dtype=float)
            Pu_vals = np.asarray(smp["P"].value, dtype=float)          # density is declared in the prior's own unit
            ana = -np.log(Pu_vals) + stats.beta(*e_ab).logpdf(ev)
            if s_kind == "lognormal":
                ana = ana + stats.lognorm(s=s_sd, scale=math.exp(s_mu)).logpdf(sv_)
            if gl:
                ana = ana + stats.norm(0, sig).logpdf(Kv)
                for k, sv in enumerate(svs):
                    ana = ana + stats.norm(0, sv).logpdf(np.asarray(smp["v%d" % k].to_value(u.km / u.s / u.day ** k)))
                for k in range(noff):
                    ana = ana + stats.norm(1.0, 4.0).logpdf(np.asarray(smp["dv0_%d" % (k + 1)].to_value(u.km / u.s)))
            diff = lp - ana
            ok = np.isfinite(diff)
            spread = float(np.ptp(diff[ok])) if ok.any() else float("inf")
            ctx.evaluations += 1
            ctx.distinct.add(repr(("ln_prior-constant-offset",) + cfgcls))
            ctx.maxi("ln_prior_spread", spread if spread < 1e-3 else 0)
            if spread > 1e-8 * (1 + np.max(np.abs(lp[ok]))) or not ok.all():
                # classify: which term is off?
                key = "ln_prior-not-log-density"
                fit_err, coef = float("nan"), [float("nan")] * 2
                d_noP = diff + np.log(Pu_vals)
                if np.ptp((d_noP + Pu_vals)[ok]) < 1e-7 * (1 + np.max(np.abs(lp[ok]))):
                    key = "uniformlog-logp-minus-x"
                elif gl:
                    # known mechanism: the K term was evaluated with ONE (P*, e*) for all rows, i.e.
                    # lp - (analytic without K) = -ln(sqrt(2 pi) s*) - K^2 / (2 s*^2): exactly linear in K^2, slope < 0
                    resid = (lp - (ana - stats.norm(0, sig).logpdf(Kv)))[ok]
                    k2 = (Kv[ok] / np.max(np.abs(Kv[ok]))) ** 2          # scaled: K may be 1e5 m/s
                    A_ = np.stack([np.ones(ok.sum()), k2], axis=1)
                    coef, *_ = np.linalg.lstsq(A_, resid, rcond=None)
                    fit_err = np.max(np.abs(A_ @ coef - resid))
                    if fit_err < 1e-6 * (1 + np.max(np.abs(resid))) and coef[1] < 0:
                        key = "ln_prior-K-term-at-unrelated-P-e"
                ctx.violation(key, "ln_prior minus the analytic joint log-density varies by %.3g over the rows (must be constant)"
                              % spread, dict(desc, lp_head=lp[:3], analytic_head=ana[:3],
                                             classifier=dict(fit_err=float(fit_err), coef=[float(x) for x in coef]) if gl else None))
            if i % 2 == 0:
                ctx.sample(dict(desc, n_draws=nd, ks_tests=[t[0] for t in tests], ln_prior_spread=spread))
        except Exception as e:
            ctx.exception(e, "prior configuration", desc)
