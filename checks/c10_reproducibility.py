META = {
    "rule": ("seeded scenarios = random sequences of 3-7 API calls (prior.sample with/without linear parameters; "
             "rejection_sample with a JokerSamples object / file name / integer count, in-memory and cache, shuffled subsets; "
             "iterative_rejection_sample both paths) on ONE TheJoker. Each scenario is executed (a) twice in-process with "
             "different numpy/python *global* seeds, (b) once in a fresh interpreter with another PYTHONHASHSEED, (c) with "
             "MultiPool(2) instead of SerialPool at equal n_batches, (d) with another API seed. Monitors: bitwise output "
             "digests equal in (a)-(c) and different in (d); np.random/random global state digests equal before/after every "
             "call; through the recording generators, all child spawn keys within and across calls distinct, and no "
             "linear-parameter variate (K) occurring twice anywhere in a scenario. distinct_nontrivial = distinct (call kind, "
             "position in sequence bucket, comparison kind) triples."),
    "shards": {"quick": 4, "thorough": 16},
    "timeout": {"quick": 900, "thorough": 3600},
    "min_evaluations": {"quick": 100, "thorough": 2000},
    "assumptions": ["digests are taken over every returned column (values as float64 bytes, names, units)",
                    "continuous variates coincide with probability 0, so any repeated K value is a reused stream"],
}
# ---- END META ----
import json
import os
import random
import subprocess
import sys

import numpy as np

from tjverif import recgen, repro, session


def run(ctx):
    import schwimmbad
    recgen.install_child_recording()
    n = ctx.n(7, 28)
    mp = schwimmbad.MultiPool(processes=2)
    scen = []
    results_a = {}
    for i in ctx.cases(n):
        st = [ctx.seed, 10, ctx.shard, i]
        scen.append(st)
        desc = dict(index=i, scenario=st)
        try:
            np.random.seed(1)
            random.seed(1)
            np.random.normal()       # leave a cached Gaussian deviate in the legacy global stream (part of its state)
            recgen.reset()
            r1 = repro.run_scenario(st, ctx.tmpdir, record=True)
            events = list(recgen.EVENTS)
            np.random.seed(987654)
            random.seed(987654)
            np.random.normal()
            r2 = repro.run_scenario(st, ctx.tmpdir)
            r3 = repro.run_scenario(st, ctx.tmpdir, pool=mp)
            r4 = repro.run_scenario(st, ctx.tmpdir, api_seed_shift=1)
        except Exception as e:
            ctx.exception(e, "scenario", desc)
            continue
        results_a[json.dumps(st)] = r1
        kinds = [e["kind"] for e in r1]
        desc["calls"] = kinds
        for k, (a, b, c, d) in enumerate(zip(r1, r2, r3, r4)):
            pos = "first" if k == 0 else "later"
            ctx.evaluations += 3
            ctx.distinct.add(repr((a["kind"], pos, "repeat")))
            ctx.distinct.add(repr((a["kind"], pos, "multipool")))
            if not a["global_rng_untouched"] or not b["global_rng_untouched"]:
                ctx.violation("global-rng-changed", "call %d (%s) changed numpy's or python's global random state" % (k, a["kind"]), desc)
            if a["digest"] != b["digest"]:
                key = "not-reproducible"
                if a["kind"].startswith("rejection-int"):
                    key = "int-prior-samples-ignore-generator"
                ctx.violation(key, "call %d (%s): equal seeds, different outputs (%s rows vs %s rows; digests %s / %s) - and the "
                              "two runs differed only in the *global* numpy/python seeds" % (k, a["kind"], a["n"], b["n"], a["digest"], b["digest"]),
                              dict(desc, call=k))
                break
            if a["digest"] != c["digest"]:
                ctx.violation("pool-dependent-output", "call %d (%s): SerialPool and MultiPool(2) with equal seeds and n_batches give "
                              "different outputs" % (k, a["kind"]), dict(desc, call=k))
                break
            if a["n"] > 0 and a["digest"] == d["digest"] and not a["kind"].startswith(("prior", "read")):
                ctx.evaluations += 1
                ctx.violation("seed-ignored", "call %d (%s): a different seed gives bit-identical output" % (k, a["kind"]), dict(desc, call=k))
        # stream independence
        keys = [tuple(e["key"]["spawn_key"]) + (e["key"]["entropy"],) for e in events if e["op"] == "child-start"]
        ctx.count("child_generators_seen", len(keys))
        ctx.evaluations += 1
        ctx.distinct.add(repr(("streams", len(keys) > 3)))
        if len(set(keys)) != len(keys):
            ctx.violation("child-stream-reused", "the same child seed (spawn key) was handed out more than once in one scenario: %s"
                          % [k[:-1] for k in keys][:12], desc)
        allK = [x for e in r1 for x in e.get("K", [])]
        ctx.count("linear_variates_compared", len(allK))
        if len(set(allK)) != len(allK):
            ctx.violation("linear-draws-repeated", "a linear-parameter draw (K) occurs more than once across the calls/batches of one "
                          "scenario (%d values, %d distinct)" % (len(allK), len(set(allK))), desc)
        seenP = {}
        for k, e in enumerate(r1):
            for x in e.get("P_bycount", []):
                if x in seenP and seenP[x] != k:
                    ctx.violation("by-count-library-reused", "calls %d and %d (%s) both asked for prior samples by count and returned the "
                                  "same period %r: the second library was not drawn from the generator" % (seenP[x], k, e["kind"], x),
                                  dict(desc, call=k))
                    break
                seenP[x] = k
            else:
                continue
            break
        ctx.count("by_count_periods_compared", len(seenP))
        if i % 3 == 0:
            ctx.sample(dict(desc, digests=[e["digest"] for e in r1], rows=[e["n"] for e in r1], child_streams=len(keys)))
    mp.close()
    # ---- one generator handed to several TheJoker objects in turn ("one seeded rng, loop over stars"): the objects draw from it,
    # so the second object continues the stream - it does not restart it
    if ctx.replay is None:
        from thejoker import TheJoker
        for q in range(ctx.n(3, 12)):
            rq = ctx.rng(7000 + q)
            pbq = session.make_problem(rq, N=int(rq.choice([60, 200])), profile="flat", n_offsets=0, poly_trend=1)
            gq = np.random.default_rng(int(rq.integers(0, 2 ** 31)))
            mem = bool(rq.random() < 0.5)
            outs = []
            for rep_ in range(2):
                jq = TheJoker(pbq.prior, rng=gq, tempfile_path=ctx.tmpdir)
                oq = jq.rejection_sample(pbq.data, pbq.lib, in_memory=mem, n_linear_samples=2)
                outs.append(set(float(x) for x in np.asarray(oq["K"].value, dtype=float)))
            ctx.evaluations += 1
            ctx.distinct.add(repr(("shared-generator-two-samplers", mem)))
            both = outs[0] & outs[1]
            if both:
                ctx.violation("linear-draws-repeated", "two TheJoker objects built one after the other from the same Generator object "
                              "returned %d identical K draws: the second did not continue the generator's stream" % len(both),
                              dict(in_memory=mem, case=q))
    # (b) fresh interpreter, different hash seed
    if scen and ctx.replay is None:
        spec = dict(scenarios=scen, tmpdir=ctx.tmpdir, global_seed=4242)
        sp = os.path.join(ctx.tmpdir, "child_spec.json")
        outp = os.path.join(ctx.tmpdir, "child_out.json")
        json.dump(spec, open(sp, "w"))
        env = dict(os.environ)
        env["PYTHONHASHSEED"] = "12345"
        try:
            subprocess.run([sys.executable, "-m", "tjverif.repro", sp, outp], env=env, timeout=600, check=True,
                           stdout=subprocess.DEVNULL, stderr=subprocess.DEVNULL)
            child = json.load(open(outp))
            for key, r1 in results_a.items():
                rc = child.get(key)
                if rc is None:
                    continue
                for k, (a, c) in enumerate(zip(r1, rc)):
                    ctx.evaluations += 1
                    ctx.distinct.add(repr((a["kind"], "fresh-interpreter")))
                    if a["digest"] != c["digest"]:
                        key2 = "int-prior-samples-ignore-generator" if a["kind"].startswith("rejection-int") else "not-reproducible-across-processes"
                        ctx.violation(key2, "call %d (%s): a fresh interpreter (other PYTHONHASHSEED) with equal seeds gives different "
                                      "output" % (k, a["kind"]), dict(scenario=json.loads(key), call=k))
                        break
        except Exception as e:
            ctx.inconclusive = "fresh-interpreter run failed: %r" % (e,)
