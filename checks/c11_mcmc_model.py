META = {
    "rule": ("seeded priors (poly_trend 1-3, offsets 0-2 on chronological survey lists, constant and sampled jitter, the "
             "canonical unit system day/rad/data-unit and custom ones: P prior in yr|h, K / trend / offset / jitter priors in "
             "other velocity units than the data) and data sets; setup_mcmc is called on 1-row and many-row rejection "
             "outputs. The assembled pymc model is compiled once over its value variables and evaluated at physical "
             "parameter points mapped to value space (logit e, log s, (sin, cos) angle pairs). Monitors: model_rv == K z(t) "
             "+ v0 + survey offsets + trend from an independent Kepler solver (data unit); ln_likelihood == sum ln N(y | "
             "model, sigma^2 + s^2); model log-density (no Jacobians) minus [declared prior log-densities + that Gaussian "
             "term] constant over the points; mcmc_init == the chosen row (single row, or median-period row) in the prior's "
             "units. distinct_nontrivial = distinct (monitor, unit system class, poly_trend, n_offsets, jitter kind, rows "
             "kind) classes evaluated."),
    "shards": {"quick": 4, "thorough": 16},
    "timeout": {"quick": 900, "thorough": 3600},
    "min_evaluations": {"quick": 150, "thorough": 3000},
    "assumptions": ["pymc/pytensor graph evaluation is trusted; the model is evaluated, not sampled (NUTS convergence is outside the property)",
                    "the angle pairs are evaluated at unit radius, where pymc_ext's regularisation potential vanishes"],
}
# ---- END META ----
import math

import numpy as np

from tjverif import gen, oracle, session


def run(ctx):
    import astropy.units as u
    import pymc as pm
    import pytensor
    from scipy import stats
    from thejoker import TheJoker
    n = ctx.n(7, 30)
    npts = ctx.n(10, 30)
    for i in ctx.cases(n):
        rng = ctx.rng(i)
        canonical = bool(rng.random() < 0.35)
        n_off = int(rng.choice([0, 1, 2], p=[.5, .3, .2]))
        pb = session.make_problem(rng, N=60, profile=str(rng.choice(["moderate", "flat"])), n_offsets=n_off,
                                  poly_trend=int(rng.choice([1, 2, 3])), kkind=str(rng.choice(["default", "normal", "default-custom"])),
                                  # single data sets: a user-given reference epoch (on any time scale) in 2 of 3 cases
                                  t_ref_kind=str(rng.choice(["default", "inside", "before", "far"], p=[.34, .26, .2, .2])))
        ps = pb.ps
        pb.code_assign = None
        if pb.dspec["form"] == "dict" and rng.random() < 0.7:
            # the same (chronological) surveys under keys inserted in another than sorted order: the sampler and the MCMC model
            # must agree on which survey dv0_k belongs to (the k-th key in sorted order; the smallest key is the reference)
            keys_ = list(pb.dspec["keys"])
            new_ = [keys_[j_] for j_ in rng.permutation(len(keys_))]
            pb.dspec["keys"] = new_
            srt_ = sorted(new_)
            pb.code_assign = tuple(srt_.index(k_) for k_ in new_)
            pb.data = gen.build_data(pb.dspec)
            pb.lin = gen.linear_problem(pb.dspec, ps, pb.code_assign)
        if n_off == 0 and rng.random() < 0.4:
            # a single data set whose uncertainties are quoted in another unit than its velocities (km/s with m/s errors)
            sv = pb.dspec["surveys"][0]
            cur = sv.get("err_unit", sv["unit"])
            new_u = str(rng.choice([x for x in gen.VEL_UNITS if x != sv["unit"]]))
            sv["err"] = [gen.conv(v, cur, new_u) for v in sv["err"]]
            sv["err_unit"] = new_u
            pb.data = gen.build_data(pb.dspec)
            pb.lin = gen.linear_problem(pb.dspec, ps, pb.code_assign)
        if canonical:
            # re-express every prior in the canonical system: day / rad / data unit
            du = pb.du
            ps["P_min"], ps["P_max"] = gen.conv(ps["P_min"], ps["P_unit"], "d"), gen.conv(ps["P_max"], ps["P_unit"], "d")
            ps["P_unit"] = "d"
            K = ps["K"]
            for k in ("mu", "sigma", "sigma_K0"):
                if k in K:
                    K[k] = gen.conv(K[k], K["unit"], du)
            K["unit"] = du
            for v in ps["v"] + ps["offsets"]:
                v["mu"], v["sigma"] = gen.conv(v["mu"], v["unit"], du), gen.conv(v["sigma"], v["unit"], du)
                v["unit"] = du
            ps["s"]["value"] = gen.conv(ps["s"]["value"], ps["s"]["unit"], du)
            ps["s"]["unit"] = du
            pb.prior = gen.build_prior(ps)
            pb.lin = gen.linear_problem(pb.dspec, ps, pb.code_assign)
        sk = ps["s"]["kind"]
        many = bool(rng.random() < 0.5)
        unit_cls = "canonical" if canonical else "custom(P:%s,K:%s)" % (ps["P_unit"], "data" if ps["K"]["unit"] == pb.du else "other")
        desc = dict(index=i, canonical_units=canonical, P_unit=ps["P_unit"], K=ps["K"], data_unit=pb.du, poly_trend=ps["poly_trend"],
                    n_offsets=n_off, jitter=ps["s"], many_rows=many)
        try:
            joker = TheJoker(pb.prior, rng=np.random.default_rng([ctx.seed, i]))
            with_lp = bool(rng.random() < 0.5)
            desc["samples_carry_logprobs"] = with_lp
            post = joker.rejection_sample(pb.data, pb.lib, in_memory=True, max_posterior_samples=9, return_logprobs=with_lp)
            if not many:
                post = post[int(rng.integers(0, len(post)))]
            shifted_tref = bool(rng.random() < 0.25) and post.t_ref is not None
            if shifted_tref:
                # samples that carry another reference epoch than the data (read from a file, made from another subset): the
                # model is the data's model; which epoch the samples were expressed about only matters for the start values
                from thejoker import JokerSamples as _JS
                post2 = _JS(t_ref=post.t_ref - 20 * u.day, poly_trend=post.poly_trend, n_offsets=post.n_offsets)
                for k_ in post.par_names:
                    post2[k_] = post[k_]
                post = post2
            desc["samples_t_ref_shifted"] = shifted_tref
            units_before = {k: str(v) for k, v in pb.prior.par_units.items()}
            with pb.prior.model:
                init = joker.setup_mcmc(pb.data, post)
            m = pb.prior.model
            units_after = {k: str(v) for k, v in pb.prior.par_units.items()}
            ctx.evaluations += 1
            if units_after != units_before:
                ctx.violation("setup_mcmc-changes-prior-units", "setup_mcmc relabelled the prior's variables: %s -> %s"
                              % ({k: units_before[k] for k in units_before if units_before[k] != units_after.get(k)},
                                 {k: units_after.get(k) for k in units_before if units_before[k] != units_after.get(k)}), desc)
            # a second call on the same prior/model (e.g. with another starting sample) must give a consistent initial point
            with pb.prior.model:
                init2 = joker.setup_mcmc(pb.data, post)
            for nm_ in init:
                if nm_ in init2 and not np.allclose(np.squeeze(init[nm_]), np.squeeze(init2[nm_]), rtol=1e-12, atol=0):
                    ctx.violation("mcmc-init-not-repeatable", "a second setup_mcmc call returns %s=%r, the first %r"
                                  % (nm_, float(np.squeeze(init2[nm_])), float(np.squeeze(init[nm_]))), dict(desc, parameter=nm_))
                    break
            # ---------------- mcmc_init
            if len(post) > 1:
                Pp = np.asarray(post["P"].to_value(u.day))
                j = int(np.where(Pp == np.sort(Pp)[len(Pp) // 2])[0][0])
            else:
                j = 0
            names = ["P", "e", "omega", "M0", "s", "K"] + ["v%d" % k for k in range(ps["poly_trend"])] + \
                    ["dv0_%d" % k for k in range(1, n_off + 1)]
            punits = {"P": gen.U(ps["P_unit"]), "e": u.one, "omega": u.rad, "M0": u.rad, "s": gen.U(ps["s"]["unit"]),
                      "K": gen.U(ps["K"]["unit"])}
            for k in range(ps["poly_trend"]):
                punits["v%d" % k] = gen.U(ps["v"][k]["unit"]) / u.day ** k
            for k in range(1, n_off + 1):
                punits["dv0_%d" % k] = gen.U(ps["offsets"][k - 1]["unit"])
            ctx.evaluations += 1
            ctx.distinct.add(repr(("mcmc_init", unit_cls, many, with_lp)))
            for nm in names:
                col = post[nm]
                want = float(np.atleast_1d(col.to_value(punits[nm]) if hasattr(col, "to_value") else np.asarray(col))[j])
                got = float(np.squeeze(init[nm])) if nm in init else float("nan")
                if not (abs(got - want) <= 1e-12 * (1 + abs(want))):
                    ctx.violation("mcmc-init-wrong", "mcmc_init[%s]=%r, the chosen sample has %r %s" % (nm, got, want, punits[nm]),
                                  dict(desc, parameter=nm))
                    break
            # ---------------- compile the model once
            outs = m.replace_rvs_by_values([m["model_rv"], m["ln_likelihood"]])
            lp = m.logp(jacobian=False)
            f = pytensor.function(m.value_vars, outs + [lp], on_unused_input="ignore")
            vnames = [v.name for v in m.value_vars]
            lin = pb.lin
            du_ = gen.U(pb.du)
            labels = gen.merged(pb.dspec)[3]
            consts = []
            mags = []
            worst_rv = 0.0
            for q in range(npts):
                P_d = float(np.exp(rng.uniform(np.log(gen.conv(ps["P_min"], ps["P_unit"], "d")) + 1e-6,
                                               np.log(gen.conv(ps["P_max"], ps["P_unit"], "d")) - 1e-6)))
                # "for any parameter values": one point in five lies in the high-eccentricity corner (up to 0.998)
                e_ = float(rng.uniform(0.01, 0.9)) if rng.random() < 0.8 else float(1 - 10 ** rng.uniform(-2.7, -1))
                om, M0 = float(rng.uniform(-3.1, 3.1)), float(rng.uniform(-3.1, 3.1))
                s_du = float(10 ** rng.uniform(-2, 0.5) * pb.dspec["err_scale_kms"] * gen.conv(1, "km/s", pb.du)) if sk == "sampled" \
                    else gen.conv(ps["s"]["value"], ps["s"]["unit"], pb.du)
                x = lin.mu + rng.normal(size=lin.L) * np.sqrt(np.concatenate([[lin.var_K(P_d, e_)], lin.lam_rest])) * 0.7
                # physical -> prior units -> value space
                val = {}
                P_pu = gen.conv(P_d, "d", ps["P_unit"])
                val["P"] = P_pu
                val["e_logodds__"] = math.log(e_ / (1 - e_))
                val["__omega_angle1"], val["__omega_angle2"] = math.sin(om), math.cos(om)
                val["__M0_angle1"], val["__M0_angle2"] = math.sin(M0), math.cos(M0)
                s_pu = gen.conv(s_du, pb.du, ps["s"]["unit"])
                if sk == "sampled":
                    val["s_log__"] = math.log(s_pu)
                K_pu = gen.conv(x[0], pb.du, ps["K"]["unit"])
                val["K"] = K_pu
                v_pu = [gen.conv(x[1], pb.du, ps["v"][0]["unit"])]
                val["v0"] = v_pu[0]
                o_pu = []
                for k in range(1, n_off + 1):
                    o_pu.append(gen.conv(x[1 + k], pb.du, ps["offsets"][k - 1]["unit"]))
                    val["dv0_%d" % k] = o_pu[-1]
                for k in range(1, ps["poly_trend"]):
                    v_pu.append(gen.conv(x[1 + n_off + k], pb.du, ps["v"][k]["unit"]))
                    val["v%d" % k] = v_pu[-1]
                missing = [v for v in vnames if v not in val]
                if missing:
                    ctx.inconclusive = "value variables not mapped: %r" % missing
                    return
                model_rv, lnl, logp = f(*[np.asarray(val[v], dtype=float) for v in vnames])
                # ---- oracle
                z = np.asarray(oracle.rv_basis(lin.t, P_d, e_, om, M0, lin.t_ref), dtype=float)
                want_rv = np.column_stack([z, lin.D]) @ x
                scale = abs(x[0]) / (1 - e_) ** 2 + np.max(np.abs(want_rv)) + 1e-9
                # exoplanet_core's Kepler op (a dependency, used by the MCMC model) loses accuracy in a window of ~1e-5 rad
                # around M = pi (mod 2 pi): measured error <= 1.4e-5 in (sin f, cos f). Epochs inside a 1e-4 window get
                # that allowance; everywhere else the op is accurate to 1e-14.
                Mq = 2 * math.pi * (lin.t - lin.t_ref) / P_d - M0
                near_pi = np.abs(np.mod(Mq, 2 * math.pi) - math.pi) < 1e-4
                allow = np.where(near_pi, 3e-5 * abs(x[0]) / (1 - e_) ** 2 / scale, 0.0)
                ctx.count("epochs_in_kepler_op_window_near_pi", int(np.sum(near_pi)))
                dev = float(np.max(np.maximum(np.abs(np.asarray(model_rv) - want_rv) / scale - allow, 0.0)))
                worst_rv = max(worst_rv, dev)
                ctx.evaluations += 1
                ctx.distinct.add(repr(("model_rv", unit_cls, ps["poly_trend"], n_off)))
                if dev > 1e-7:
                    key = "model_rv-differs" if canonical else "model_rv-differs-in-custom-units"
                    ctx.violation(key, "model_rv differs from K z(t) + trend (+offsets) by %.3g of its scale at P=%.4g d e=%.3f "
                                  "(K=%.4g %s)" % (dev, P_d, e_, x[0], pb.du),
                                  dict(desc, point=q, P_day=P_d, e=e_, omega=om, M0=M0, x=x, got=np.asarray(model_rv)[:20],
                                       want=want_rv[:20], kepler_part=(x[0] * z)[:20], dt=(lin.t - lin.t_ref)[:20],
                                       t_ref_kind=pb.dspec["t_ref_kind"]))
                    break
                if np.any(near_pi):
                    continue        # the data term inherits the op's error at that epoch: this point is not used further
                var = lin.sig ** 2 + s_du ** 2
                gauss = oracle.ln_normal_diag(lin.y, want_rv, var)
                ctx.evaluations += 1
                ctx.distinct.add(repr(("ln_likelihood", unit_cls, sk, s_du > 0)))
                if abs(float(lnl) - gauss) > 1e-6 * (1 + abs(gauss)):
                    key = "ln_likelihood-diagnostic-wrong"
                    g0 = oracle.ln_normal_diag(lin.y, want_rv, lin.sig ** 2)
                    if s_du > 0 and abs(float(lnl) - g0) <= 1e-6 * (1 + abs(g0)):
                        key = "ln_likelihood-diagnostic-omits-jitter"
                    ctx.violation(key, "ln_likelihood deterministic = %.10g, Gaussian data term with sigma^2+s^2 = %.10g (s=%.4g %s)"
                                  % (float(lnl), gauss, s_du, pb.du), dict(desc, point=q))
                    break
                # declared prior log-densities, in the prior's own units
                K = ps["K"]
                if K["kind"] == "normal":
                    sgK = K["sigma"]
                else:
                    mk = gen.conv(500.0, "km/s", K["unit"]) if K.get("max_K") is None else gen.conv(K["max_K"], K["max_K_unit"], K["unit"])
                    sgK = min(K["sigma_K0"] * (P_d / gen.conv(K["P0"], K["P0_unit"], "d")) ** (-1 / 3) / math.sqrt(1 - e_ ** 2), mk)
                ana = -math.log(P_pu) + stats.beta(0.867, 3.03).logpdf(e_) + stats.norm(K["mu"], sgK).logpdf(K_pu)
                for k, vv in enumerate(ps["v"]):
                    ana += stats.norm(vv["mu"] if ps["custom_linear"] else 0.0, vv["sigma"]).logpdf(v_pu[k])
                for k, oo in enumerate(ps["offsets"]):
                    ana += stats.norm(oo["mu"], oo["sigma"]).logpdf(o_pu[k])
                if sk == "sampled":
                    ana += stats.lognorm(s=ps["s"]["sd"], scale=math.exp(ps["s"]["mu"])).logpdf(s_pu)
                consts.append(float(logp) - (ana + gauss))
                mags.append(abs(gauss) + abs(ana) + abs(float(logp)))
            else:
                ctx.evaluations += 1
                ctx.distinct.add(repr(("log-density", unit_cls, ps["poly_trend"], n_off, sk)))
                spread = float(np.ptp(consts))
                ctx.maxi("logp_offset_spread", spread if spread < 1e-3 else 0.0)
                ctx.maxi("model_rv_rel_dev", worst_rv)
                # the constant is a difference of numbers as large as the data term: allow their float64 resolution
                if spread > 1e-6 * (1 + max(abs(c) for c in consts)) + 1e-9 * max(mags):
                    ctx.violation("mcmc-log-density-differs", "model log-density minus (declared priors + Gaussian data term) varies by "
                                  "%.3g over %d parameter points (must be constant)" % (spread, npts), dict(desc, offsets_head=consts[:4]))
            if i % 3 == 0:
                ctx.sample(dict(desc, value_vars=vnames, points=npts, mcmc_init={k: float(np.squeeze(v)) for k, v in init.items()}))
        except Exception as e:
            ctx.exception(e, "setup_mcmc scenario", desc)
