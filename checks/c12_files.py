META = {
    "rule": ("model-based history monitor: seeded histories of 3-12 operations (write/overwrite, refused plain re-write, "
             "compatible append, incompatible append [extra, missing, reordered column; other unit, t_ref, poly_trend, "
             "n_offsets, dtype], read, read_batch with slice/tuple/index array (unsorted, repeats)/int) on one HDF5 "
             "path run against the real JokerSamples.write/read and utils.read_batch and against an in-memory model "
             "(list of written tables). After every step read(path) must equal the model; a refused append must leave "
             "the file's sha256 unchanged; an accepted append must be model-compatible. Plus FITS round trips. "
             "Rows carry unique tags. distinct_nontrivial = distinct (operation kind, outcome, table-shape class) "
             "triples observed."),
    "shards": {"quick": 1, "thorough": 16},
    "timeout": {"quick": 600, "thorough": 3000},
    "min_evaluations": {"quick": 800, "thorough": 8000},
    "assumptions": ["h5py/pytables/astropy I/O layers are trusted to store what they are given",
                    "an append that the model calls incompatible may be refused OR (reordered columns / convertible "
                    "unit only) stored as the correct physical concatenation; anything else is a violation"],
}
# ---- END META ----
import hashlib
import os

import numpy as np


def sha(p):
    with open(p, "rb") as f:
        return hashlib.sha256(f.read()).hexdigest()


class Spec:
    """What a table is, independent of thejoker objects."""

    def __init__(self, names, units, dtype, t_ref, poly, noff):
        self.names, self.units, self.dtype = list(names), dict(units), dtype
        self.t_ref, self.poly, self.noff = t_ref, poly, noff

    def key(self):
        return (tuple(self.names), tuple(str(self.units[k]) for k in self.names), str(self.dtype),
                self.t_ref, self.poly, self.noff)


def make_spec(rng):
    import astropy.units as u
    poly = int(rng.integers(1, 4))
    noff = int(rng.integers(0, 3))
    allnames = ["P", "e", "omega", "M0", "s", "K"] + ["v%d" % i for i in range(poly)] + \
               ["dv0_%d" % k for k in range(1, noff + 1)] + ["ln_prior", "ln_likelihood"]
    r = rng.random()
    if r < 0.3:
        names = ["P", "e", "omega", "M0", "s"]
    elif r < 0.5:
        names = ["P", "e", "omega", "M0", "s", "ln_prior"]
    elif r < 0.75:
        names = allnames
    else:
        k = int(rng.integers(1, len(allnames) + 1))
        names = [allnames[j] for j in sorted(rng.choice(len(allnames), size=k, replace=False))]
        if "P" not in names:
            names = ["P"] + names
    vel = u.km / u.s if rng.random() < 0.6 else u.m / u.s
    units = {"P": u.day if rng.random() < 0.6 else u.yr, "e": u.one,
             "omega": u.rad if rng.random() < 0.6 else u.deg, "M0": u.rad if rng.random() < 0.6 else u.deg,
             "s": vel, "K": vel, "ln_prior": u.one, "ln_likelihood": u.one}
    for i in range(poly):
        units["v%d" % i] = vel / u.day ** i
    for k in range(1, noff + 1):
        units["dv0_%d" % k] = vel
    t_ref = None if rng.random() < 0.3 else float(np.round(rng.uniform(50000, 60000), 3))
    if rng.random() < 0.06:
        t_ref = 0.0            # times counted from zero: a reference epoch that is "falsy" but present
    sp = Spec(names, {k: units[k] for k in names}, np.float64, t_ref, poly, noff)
    sp.t_ref_scale = str(rng.choice(["tcb", "utc", "tdb"], p=[.5, .3, .2]))     # scale the epoch is *given* in
    return sp


_tag = [0]


def make_rows(spec, n, rng):
    cols = {}
    for k in spec.names:
        if k == "P":
            v = 1.0 + _tag[0] + np.arange(n) + rng.uniform(0, 0.25, n)   # unique, increasing tags
            _tag[0] += n
        elif k == "e":
            v = rng.uniform(0, 0.95, n)
        else:
            v = rng.normal(size=n) * 3
        cols[k] = v.astype(spec.dtype)
    return cols


def build_samples(spec, cols):
    import astropy.units as u
    from astropy.time import Time
    from thejoker import JokerSamples
    t_ref = None if spec.t_ref is None else Time(spec.t_ref, format="mjd", scale="tcb")
    sc = getattr(spec, "t_ref_scale", "tcb")
    if t_ref is not None and sc != "tcb":
        t_ref = getattr(t_ref, sc)          # the same instant, expressed on another time scale
    s = JokerSamples(t_ref=t_ref, poly_trend=spec.poly, n_offsets=spec.noff)
    for k in spec.names:
        s[k] = cols[k] * spec.units[k]
    return s


def compare_read(path, spec, model_rows, fits=False, via=None):
    """Return None or (key, msg)."""
    import astropy.units as u
    from thejoker import JokerSamples
    if via == "h5py":
        import h5py
        with h5py.File(path, "r") as fh:
            back = JokerSamples.read(fh)
    elif via == "tables":
        import tables as tb
        with tb.open_file(path, mode="r") as fh:
            back = JokerSamples.read(fh.root)
    else:
        back = JokerSamples.read(path)
    if back.par_names != spec.names:
        return ("read-columns", "columns %r, model %r" % (back.par_names, spec.names))
    n = sum(len(next(iter(r.values()))) for r in model_rows)
    if len(back) != n:
        return ("read-row-count", "file holds %d rows, model %d" % (len(back), n))
    for k in spec.names:
        col = back.tbl[k]
        bu = getattr(col, "unit", None) or u.one
        if u.Unit(bu) != u.Unit(spec.units[k]):
            return ("read-unit", "column %s unit %s, model %s" % (k, bu, spec.units[k]))
        want = np.concatenate([r[k] for r in model_rows])
        got = np.asarray(getattr(col, "value", col))
        if got.dtype != want.dtype and not fits:
            return ("read-dtype", "column %s dtype %s, model %s" % (k, got.dtype, want.dtype))
        if not np.array_equal(got, want):
            bad = int(np.sum(got != want)) if got.shape == want.shape else -1
            return ("read-values", "column %s: %d values differ from what was written" % (k, bad))
    tr = back.t_ref
    if (tr is None) != (spec.t_ref is None) or (tr is not None and abs(float(tr.tcb.mjd) - spec.t_ref) > 1e-9):
        return ("read-t_ref", "t_ref %r, model %r" % (tr, spec.t_ref))
    if back.poly_trend != spec.poly or back.n_offsets != spec.noff:
        return ("read-metadata", "poly_trend/n_offsets %r/%r, model %r/%r"
                % (back.poly_trend, back.n_offsets, spec.poly, spec.noff))
    return None


def check_read_batch(ctx, path, spec, model_rows, rng, desc):
    import astropy.units as u
    from thejoker.utils import read_batch
    N = sum(len(next(iter(r.values()))) for r in model_rows)
    full = {k: np.concatenate([r[k] for r in model_rows]) for k in spec.names}
    ncol = int(rng.integers(1, len(spec.names) + 1))
    cols = [spec.names[j] for j in rng.choice(len(spec.names), size=ncol, replace=False)]
    alt = {"P": [u.day, u.yr, u.hour], "omega": [u.rad, u.deg], "M0": [u.rad, u.deg],
           "s": [u.km / u.s, u.m / u.s], "K": [u.km / u.s, u.m / u.s]}
    units = None
    if rng.random() < 0.7:
        units = {}
        for k in cols:
            if k in alt and rng.random() < 0.8:
                units[k] = alt[k][rng.integers(0, len(alt[k]))]
    kind = str(rng.choice(["slice", "tuple", "idx", "idx-unsorted-repeats", "int", "idx-two", "int-too-many"]))
    is_f64 = spec.dtype == np.float64
    if kind in ("slice", "tuple"):
        a, b = sorted(int(x) for x in rng.integers(0, N + 1, 2))
        r_ = rng.random()
        if r_ < 0.15:
            # empty ranges, e.g. the (0, 0) task batch_tasks emits for zero samples
            a = b = int(rng.choice([0, 0, N, int(rng.integers(0, N + 1))]))
            kind += "-empty"
        elif r_ < 0.25:
            b = N + int(rng.integers(1, 50))         # runs past the last row
            kind += "-past-end"
        elif r_ < 0.35 and kind == "slice":
            a, b = (None, b) if rng.random() < 0.5 else (a, None)     # open-ended
            kind += "-open"
        elif r_ < 0.42 and kind == "slice" and N > 1:
            a, b = -int(rng.integers(1, N + 1)), None                    # the last k rows
            kind += "-negative"
        elif a == b:
            a, b = 0, N
        step = None
        if kind == "slice" and rng.random() < 0.15:
            step = int(rng.integers(1, 4))
            kind += "-step"
        if kind.startswith("slice"):
            arg = slice(a, b, step)
            sel = np.arange(N)[arg]
        elif kind == "tuple" and rng.random() < 0.3:
            # a tuple is the argument list of slice(): (start, stop, step) is a strided range
            step = int(rng.integers(1, 5))
            kind += "-step"
            arg = (a, b, step)
            sel = np.arange(N)[a:b:step]
        else:
            arg = (a, b)
            sel = np.arange(N)[a:b]
    elif kind == "idx":
        sel = np.sort(rng.choice(N, size=int(rng.integers(1, N + 1)), replace=False))
        arg = sel.copy()
    elif kind == "idx-unsorted-repeats":
        sel = rng.integers(0, N, size=int(rng.integers(1, 2 * N + 1)))
        r_ = rng.random()
        if r_ < 0.3:       # a permutation of a contiguous block
            a = int(rng.integers(0, N))
            b = int(rng.integers(a + 1, N + 1))
            sel = rng.permutation(np.arange(a, b))
        elif r_ < 0.6 and N >= 4:
            # "looks contiguous by its endpoints": first = min, last = max, span = len-1, middle shuffled
            a = int(rng.integers(0, N - 3))
            b = int(rng.integers(a + 4, N + 1))
            mid = rng.permutation(np.arange(a + 1, b - 1))
            while len(mid) > 1 and np.all(np.diff(mid) > 0):
                mid = rng.permutation(mid)
            sel = np.concatenate([[a], mid, [b - 1]])
        arg = sel.copy()
    elif kind == "idx-two":
        # exactly two row numbers (what a batch of two accepted samples is): an index array, not a (start, stop) pair
        if N < 2:
            return kind, "skipped"
        sel = rng.choice(N, size=2, replace=False)
        if rng.random() < 0.5:
            sel = np.sort(sel)[::-1].copy()
        arg = sel.copy()            # (a plain list is refused by read_batch: documented inputs are slice, tuple, int, ndarray)
    elif kind == "int-too-many":
        # more random rows than the table holds cannot be a subset without repeats: refused, never silently fewer rows
        arg = N + int(rng.integers(1, 50))
        d = dict(desc, read_kind=kind, columns=cols, N=N, size=arg)
        try:
            got = np.asarray(read_batch(path, cols, arg, units=units, rng=np.random.default_rng(int(rng.integers(0, 2 ** 31)))))
        except Exception:
            ctx.evaluations += 1
            return kind, "refused"
        ctx.evaluations += 1
        if got.shape[0] != arg:
            ctx.violation("read_batch-shape", "a random batch of %d rows was requested from a %d-row table and %d rows came back "
                          "without an error" % (arg, N, got.shape[0]), d)
            return kind, "bad"
        return kind, "ok"
    else:
        sel, arg = None, int(rng.integers(1, N + 1))
    d = dict(desc, read_kind=kind, columns=cols, units={k: str(v) for k, v in (units or {}).items()}, N=N)
    try:
        got = read_batch(path, cols, arg, units=units, rng=np.random.default_rng(int(rng.integers(0, 2 ** 31))))
    except Exception as e:
        ctx.exception(e, "read_batch(%s)" % kind, d, key="read_batch-raises")
        return kind, "raised"
    ctx.evaluations += 1
    got = np.asarray(got)
    if kind == "int":
        if got.shape != (arg, len(cols)):
            ctx.violation("read_batch-shape", "shape %r for size %d" % (got.shape, arg), d)
            return kind, "bad"
        # identify rows through the first requested column + all others must agree; rows must be distinct members
        conv = []
        for j, k in enumerate(cols):
            f = (1 * spec.units[k]).to_value((units or {}).get(k, spec.units[k])) if k in (units or {}) else 1.0
            conv.append(full[k] * f)
        rowset = {}
        ref = np.stack(conv, axis=1)
        for r in range(N):
            rowset.setdefault(ref[r].tobytes(), []).append(r)
        used = []
        for r in range(arg):
            cands = rowset.get(got[r].astype(ref.dtype).tobytes())
            if not cands:
                if not np.any(np.all(np.isclose(ref, got[r], rtol=1e-14, atol=0), axis=1)):
                    ctx.violation("read_batch-row-not-in-table", "random batch row %d is not a table row" % r, d)
                    return kind, "bad"
                cands = list(np.where(np.all(np.isclose(ref, got[r], rtol=1e-14, atol=0), axis=1))[0])
            used.append(tuple(cands))
        if "P" in cols and len(set(used)) != len(used):
            ctx.violation("read_batch-random-repeats", "random batch repeats a row", d)
            return kind, "bad"
        return kind, "ok"
    want = np.stack([full[k][sel] for k in cols], axis=1).astype(float)
    for j, k in enumerate(cols):
        if units and k in units:
            want[:, j] = want[:, j] * spec.units[k].to(units[k])
    if got.shape != want.shape:
        ctx.violation("read_batch-shape", "shape %r, expected %r" % (got.shape, want.shape), d)
        return kind, "bad"
    if not np.allclose(got, want, rtol=4e-16 if is_f64 else 1e-6, atol=0):
        rows_bad = int(np.sum(np.any(~np.isclose(got, want, rtol=1e-6, atol=0), axis=1)))
        key = "read_batch-wrong-rows" if rows_bad else "read_batch-conversion"
        ctx.violation(key, "read_batch(%s) returned other rows/values than requested (%d rows differ)"
                      % (kind, rows_bad), dict(d, sel_head=sel[:10], got_head=got[:3], want_head=want[:3]))
        return kind, "bad"
    return kind, "ok"


def run(ctx):
    import astropy.units as u
    nh = ctx.n(260, 1500)
    for i in ctx.cases(nh):
        rng = ctx.rng(i)
        path = os.path.join(ctx.tmpdir, "hist%d.hdf5" % i)
        if os.path.exists(path):
            os.unlink(path)
        spec = None
        rows = []
        nops = int(rng.integers(3, 13))
        hist = []
        shape_cls = None
        for step in range(nops):
            exists = spec is not None
            if not exists:
                op = "write-new"
            else:
                op = str(rng.choice(["overwrite", "plain-rewrite", "append-ok", "append-bad", "read", "read_batch",
                                     "read_batch"], p=[.08, .06, .22, .22, .1, .16, .16]))
            desc = dict(index=i, step=step, op=op, history=hist[-12:])
            try:
                if op in ("write-new", "overwrite"):
                    spec2 = make_spec(rng)
                    if rng.random() < 0.15:
                        spec2.dtype = np.float32
                    n = int(rng.choice([0, 1, 2, 5, 40, 600, 5000], p=[.05, .12, .13, .25, .25, .15, .05]))
                    cols = make_rows(spec2, n, rng)
                    if op == "write-new" and rng.random() < 0.25:
                        # the first write of a new file through append=True (what a loop that always appends does)
                        if os.path.exists(path):
                            os.unlink(path)
                        build_samples(spec2, cols).write(path, append=True)
                        op = "write-new-by-append"
                    else:
                        build_samples(spec2, cols).write(path, overwrite=True)
                    spec, rows = spec2, [cols]
                    shape_cls = (len(spec.names), str(spec.dtype.__name__), spec.t_ref is None, spec.poly, spec.noff,
                                 "n0" if n == 0 else "n1" if n == 1 else "n>1")
                    outcome = "accepted"
                elif op == "plain-rewrite":
                    h0 = sha(path)
                    try:
                        build_samples(spec, make_rows(spec, 2, rng)).write(path)
                        outcome = "accepted"
                        ctx.violation("rewrite-accepted", "write() without overwrite/append replaced an existing file", desc)
                    except Exception:
                        outcome = "refused"
                        if sha(path) != h0:
                            ctx.violation("refused-write-altered-file", "refused write changed the file", desc)
                elif op == "append-ok":
                    n = int(rng.choice([0, 1, 2, 7, 300], p=[.08, .23, .23, .23, .23]))
                    cols = make_rows(spec, n, rng)
                    if rng.random() < 0.3:
                        import h5py
                        with h5py.File(path, "a") as fh:            # through an open handle instead of a file name
                            build_samples(spec, cols).write(fh, append=True)
                        op = "append-ok-handle"
                    else:
                        build_samples(spec, cols).write(path, append=True)
                    rows.append(cols)
                    outcome = "accepted"
                elif op == "append-bad":
                    kind = str(rng.choice(["extra-column", "missing-column", "reordered", "unit", "t_ref",
                                           "poly_trend", "n_offsets", "dtype"]))
                    desc["bad_kind"] = kind
                    s2 = Spec(spec.names, spec.units, spec.dtype, spec.t_ref, spec.poly, spec.noff)
                    s2.t_ref_scale = getattr(spec, "t_ref_scale", "tcb")
                    tolerated_if_correct = False
                    if kind == "extra-column":
                        cand = [k for k in ["s", "K", "v0", "ln_prior", "ln_likelihood", "e", "omega", "M0"]
                                if k not in s2.names]
                        if not cand:
                            continue
                        k = cand[0]
                        pos = int(rng.integers(0, len(s2.names) + 1))
                        s2.names.insert(pos, k)
                        s2.units[k] = {"s": u.km / u.s, "K": u.km / u.s, "v0": u.km / u.s}.get(k, u.one)
                        if k in ("omega", "M0"):
                            s2.units[k] = u.rad
                        desc["position"] = "last" if pos == len(s2.names) - 1 else "inner"
                    elif kind == "missing-column":
                        if len(s2.names) < 2:
                            continue
                        pos = int(rng.integers(1, len(s2.names)))
                        del s2.names[pos]
                        desc["position"] = "last" if pos == len(s2.names) else "inner"
                    elif kind == "reordered":
                        if len(s2.names) < 2:
                            continue
                        s2.names = s2.names[::-1]
                        tolerated_if_correct = True
                    elif kind == "unit":
                        cand = [k for k in s2.names if k in ("P", "omega", "M0", "s", "K")]
                        if not cand:
                            continue
                        k = cand[0]
                        swap = {u.day: u.yr, u.yr: u.day, u.rad: u.deg, u.deg: u.rad,
                                u.km / u.s: u.m / u.s, u.m / u.s: u.km / u.s}
                        s2.units[k] = swap[s2.units[k]]
                    elif kind == "t_ref":
                        s2.t_ref = 51234.5 if s2.t_ref != 51234.5 else 51235.5
                    elif kind == "poly_trend":
                        s2.poly = s2.poly + 1
                    elif kind == "n_offsets":
                        s2.noff = s2.noff + 1
                    elif kind == "dtype":
                        s2.dtype = np.float32 if spec.dtype == np.float64 else np.float64
                    cols = make_rows(s2, int(rng.choice([0, 1, 3, 50], p=[.1, .3, .3, .3])), rng)
                    desc["rows_offered"] = len(cols["P"]) if "P" in cols else None
                    h0 = sha(path)
                    via_handle = bool(rng.random() < 0.3)
                    desc["via_open_handle"] = via_handle
                    try:
                        if via_handle:
                            import h5py
                            with h5py.File(path, "a") as fh:
                                build_samples(s2, cols).write(fh, append=True)
                        else:
                            build_samples(s2, cols).write(path, append=True)
                        outcome = "accepted"
                    except Exception:
                        outcome = "refused"
                    ctx.evaluations += 1
                    if outcome == "refused":
                        if sha(path) != h0:
                            ctx.violation("refused-append-altered-file",
                                          "append of an incompatible table (%s) raised but changed the file" % kind, desc)
                    else:
                        key = "incompatible-append-accepted"
                        if kind in ("extra-column", "missing-column"):
                            key = "append-column-count-mismatch-accepted"
                        ctx.violation(key, "append of an incompatible table (%s) was accepted and changed the file "
                                      "(sha %s)" % (kind, "changed" if sha(path) != h0 else "same"), desc)
                        # resynchronise the model with whatever is on disk now: start a new history
                        hist.append((op, outcome, kind))
                        ctx.distinct.add(repr((op + ":" + kind, outcome, shape_cls)))
                        break
                    ctx.distinct.add(repr((op + ":" + kind, outcome, shape_cls)))
                elif op == "read":
                    outcome = "ok"
                elif op == "read_batch":
                    if sum(len(next(iter(r.values()))) for r in rows) == 0:
                        op, outcome = "read", "ok"                     # an empty table: only the full read is compared
                    else:
                        k2, outcome = check_read_batch(ctx, path, spec, rows, rng, desc)
                        op = "read_batch:" + k2
                hist.append((op, outcome))
                ctx.distinct.add(repr((op, outcome, shape_cls)))
                # after every step the file must equal the model
                via = None
                if op == "read":
                    # (a pytables Group is also accepted by read() but fails loudly here: pytables cannot read the
                    #  variable-length-string header h5py writes; documented inputs are str / h5py.File / h5py.Group)
                    via = [None, "h5py"][int(rng.integers(0, 2))]
                    ctx.distinct.add(repr(("read-via", via)))
                bad = compare_read(path, spec, rows, via=via)
                ctx.evaluations += 1
                if bad:
                    ctx.violation(bad[0], "after %s: %s" % (op, bad[1]), desc)
                    break
            except Exception as e:
                ctx.exception(e, "operation %s" % op, desc)
                break
        if i % 60 == 0:
            ctx.sample(dict(index=i, history=hist, columns=spec.names if spec else None,
                            units={k: str(v) for k, v in spec.units.items()} if spec else None,
                            rows=sum(len(next(iter(r.values()))) for r in rows)))
        if os.path.exists(path):
            os.unlink(path)
    # ---- "a random subset without repeats": small batches out of a large table, many seeds. A draw *with* replacement of
    # 70 rows out of 5000 repeats a row with probability 0.39 per call, 40 calls all clean with probability 3e-9.
    if ctx.replay is None:
        from thejoker import JokerSamples
        from thejoker.utils import read_batch
        big = JokerSamples()
        Nb = 5000
        big["P"] = (np.arange(Nb) + 1.0) * u.day
        big["e"] = np.linspace(0, 0.9, Nb)
        bpath = os.path.join(ctx.tmpdir, "c12_big.hdf5")
        big.write(bpath, overwrite=True)
        rngb = ctx.rng(777)
        for k in range(ctx.n(40, 200)):
            size = int(rngb.choice([3, 20, 70, 70, 78]))
            got = np.asarray(read_batch(bpath, ["P", "e"], size, rng=np.random.default_rng(int(rngb.integers(0, 2 ** 31)))))
            ctx.evaluations += 1
            ctx.distinct.add(repr(("random-batch-large-table", size)))
            tags = np.round(got[:, 0]).astype(int)
            if got.shape != (size, 2) or np.any(tags < 1) or np.any(tags > Nb) or not np.allclose(got[:, 1], np.linspace(0, 0.9, Nb)[tags - 1]):
                ctx.violation("read_batch-row-not-in-table", "random batch of %d out of %d: rows are not table rows" % (size, Nb),
                              dict(size=size, N=Nb))
                break
            if len(set(tags.tolist())) != size:
                ctx.violation("read_batch-random-repeats", "random batch of %d rows out of %d repeats a row (%d distinct)"
                              % (size, Nb, len(set(tags.tolist()))), dict(size=size, N=Nb, call=k))
                break
    # FITS round trips
    nf = ctx.n(60, 300)
    for j in ctx.cases(nf):
        rng = ctx.rng(500000 + j)
        spec = make_spec(rng)
        if j % 10 == 3:
            spec.t_ref = 0.0             # present but "falsy"
        cols = make_rows(spec, int(rng.choice([1, 3, 100])), rng)
        path = os.path.join(ctx.tmpdir, "rt%d.fits" % j)
        try:
            build_samples(spec, cols).write(path, overwrite=True)
            bad = compare_read(path, spec, [cols], fits=True)
            ctx.evaluations += 1
            ctx.distinct.add(repr(("fits", "none" if spec.t_ref is None else "zero" if spec.t_ref == 0 else "epoch", len(spec.names))))
            if bad:
                ctx.violation("fits-" + bad[0], bad[1], dict(index=j, columns=spec.names))
        except Exception as e:
            ctx.exception(e, "fits round trip", dict(index=j, columns=spec.names))
        finally:
            if os.path.exists(path):
                os.unlink(path)
