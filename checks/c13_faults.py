META = {
    "rule": ("fault enumeration: for each scenario (marginal_ln_likelihood | rejection_sample | iterative_rejection_sample) x "
             "(JokerSamples object | user file | integer count) x (SerialPool | MultiPool(2)) a clean recording run lists, via "
             "sys.monitoring PY_START on thejoker's own code objects plus wrappers on h5py.File, tables.open_file, "
             "NamedTemporaryFile and pool.map, every (function, k-th invocation) reached; then one run per fault point raises "
             "an InjectedFault there (quick: k in {1, last}; thorough: k in {1, 2, middle, last} and a BaseException variant for "
             "the cache-lifetime functions; pool workers are targeted by task start index). Postconditions of every run: the "
             "call raised and the injected fault is in its exception chain; the sampler's private temporary directory holds no file with a suffix (cache, partial or renamed); the user's "
             "file has the same sha256; no descriptor to an .hdf5 file stays open; a following marginal_ln_likelihood on the "
             "same TheJoker is bit-identical to the clean run and a following rejection_sample satisfies the acceptance rule "
             "on its own recorded uniforms. Clean runs assert 'cache removed, user file unchanged' too. "
             "distinct_nontrivial = distinct (scenario, fault point) pairs injected and reached."),
    "shards": {"quick": 4, "thorough": 16},
    "timeout": {"quick": 1200, "thorough": 5400},
    "min_evaluations": {"quick": 150, "thorough": 1500},
    "assumptions": ["faults are exceptions (a killed pool worker hangs multiprocessing itself, outside thejoker)",
                    "os.unlink of the cache file is not a fault point: if removing the file fails it necessarily remains",
                    "inside MultiPool workers only the worker entry points are targeted (per-process call counts are not "
                    "deterministic); the same inner functions are enumerated in the SerialPool scenarios"],
}
# ---- END META ----
import hashlib
import os
import signal

import numpy as np

from tjverif import faults, recgen, session

SCENARIOS = [(api, kind, pool) for api in ("marginal", "rejection", "iterative") for kind in ("obj", "file", "int")
             for pool in (0, 2) if not (kind == "int" and api != "rejection")]


def sha(p):
    with open(p, "rb") as f:
        return hashlib.sha256(f.read()).hexdigest()


def open_hdf5_fds():
    out = []
    for fd in os.listdir("/proc/self/fd"):
        try:
            t = os.readlink("/proc/self/fd/" + fd)
        except OSError:
            continue
        if t.endswith(".hdf5") or t.endswith(".hdf5 (deleted)"):
            out.append(t)
    return out


def leftovers(tmpdir):
    out = []
    for root, _, files in os.walk(tmpdir):
        for fn in files:
            # any file with a suffix: a partial file under another name (".hdf5.part", ".tmp") is as much a leak as the
            # cache itself. Suffix-less "tmpXXXXXXXX" files are pytensor's fgraph_to_python sources (linker=py), not thejoker's.
            if "." in fn or not (fn.startswith("tmp") and len(fn) == 11):
                out.append(os.path.join(root, fn))
    return out


class Timeout(Exception):
    pass


def _alarm(signum, frame):
    raise Timeout()


def run(ctx):
    import schwimmbad
    import thejoker
    from thejoker import TheJoker
    recgen.install_child_recording()
    faults.Boundary.install()
    faults.install(os.path.dirname(thejoker.__file__))
    signal.signal(signal.SIGALRM, _alarm)
    units = [(sc, v) for v in range(1 if ctx.quick() else 3) for sc in SCENARIOS]
    mine = [u_ for k, u_ in enumerate(units) if k % ctx.nshards == ctx.shard]
    if ctx.replay is not None:
        mine = [(tuple(ctx.replay["case"]["scenario"]), int(ctx.replay["case"].get("variant", 0)))]
    userdir = os.path.join(ctx.tmpdir, "user")
    tmpd = os.path.join(ctx.tmpdir, "private_tmp")
    os.makedirs(userdir, exist_ok=True)
    os.makedirs(tmpd, exist_ok=True)
    import tempfile
    tempfile.tempdir = tmpd
    os.environ["TMPDIR"] = tmpd
    for sc, variant in mine:
        api, kind, pk = sc
        rng = ctx.rng(SCENARIOS.index(sc), variant)
        # variants: other data/prior/library (variant 1 uses two surveys + an offset, variant 2 a bigger library)
        pb = session.make_problem(rng, N=60 if variant < 2 else 200, profile="moderate", n_offsets=1 if variant == 1 else 0,
                                  poly_trend=int(rng.choice([1, 2])))
        upath = os.path.join(userdir, "library_%s_%s_%d_%d.hdf5" % (api, kind, pk, variant))
        pb.lib.write(upath, overwrite=True)
        usha = sha(upath)
        ll_clean = np.asarray(TheJoker(pb.prior).marginal_ln_likelihood(pb.data, pb.lib, in_memory=True), dtype=float)

        def make_joker():
            base = schwimmbad.SerialPool() if pk == 0 else schwimmbad.MultiPool(processes=pk)
            pool = faults.FaultyPool(base)
            return TheJoker(pb.prior, pool=pool, rng=recgen.make(int(rng.integers(0, 2 ** 31))), tempfile_path=tmpd), base

        def call(joker):
            arg = pb.lib if kind == "obj" else upath if kind == "file" else 200
            if api == "marginal":
                return joker.marginal_ln_likelihood(pb.data, arg, n_batches=3)
            if api == "rejection":
                return joker.rejection_sample(pb.data, arg, n_batches=3, n_linear_samples=2,
                                              return_logprobs=(kind != "int"))
            # (a small first batch and several requested samples: the loop needs more than one iteration, so "the last invocation"
            # of the batch readers lies in a later iteration)
            return joker.iterative_rejection_sample(pb.data, arg, n_requested_samples=6, init_batch_size=6, n_batches=2,
                                                    return_logprobs=True, n_linear_samples=2)

        def post_conditions(desc, when):
            bad = []
            lo = leftovers(tmpd)
            if lo:
                bad.append(("cache-file-leaked", "%s: temporary file left behind: %s" % (when, [os.path.basename(x) for x in lo])))
                for x in lo:
                    os.unlink(x)
            if not os.path.exists(upath) or sha(upath) != usha:
                bad.append(("user-file-modified", "%s: the user's samples file changed (or vanished)" % when))
                pb.lib.write(upath, overwrite=True)
            fds = open_hdf5_fds()
            if fds:
                bad.append(("descriptor-leaked", "%s: descriptors to HDF5 files left open: %s" % (when, fds)))
            for key, msg in bad:
                ctx.violation(key, msg, desc)
            return not bad

        # ---------------- clean recording run
        desc0 = dict(scenario=list(sc), variant=variant)
        joker, base = make_joker()
        faults.Boundary.reset()
        faults.record()
        try:
            call(joker)
        except Exception as e:
            faults.off()
            ctx.exception(e, "clean run of scenario %r" % (sc,), desc0)
            continue
        finally:
            faults.off()
        counts = dict(faults.State.counts)
        bcounts = dict(faults.Boundary.counts)
        if pk:
            base.close()
        ctx.evaluations += 1
        post_conditions(dict(desc0, run="clean"), "clean run")
        points = []
        for key in faults.State.order:
            n = counts[key]
            if key.split(":")[1] in faults.WORKERS and pk:
                starts = sorted(set(counts.get("tasks:" + key, [])))
                ks = [("task", s) for s in ([starts[0], starts[-1]] if ctx.quick() else starts)]
            else:
                ks = sorted(set([1, n] if ctx.quick() else [1, 2, (n + 1) // 2, n]))
                ks = [k for k in ks if 1 <= k <= n]
            for k in ks:
                points.append(("py", key, k))
        for name, n in bcounts.items():
            for k in sorted(set([1, n] if ctx.quick() else [1, 2, n])):
                if 1 <= k <= n:
                    points.append(("boundary", name, k))
                    points.append(("boundary-oserror", name, k))     # what these layers really raise: OSError family
        # BaseException variant (KeyboardInterrupt / SystemExit style exits): raised in the parent process only -
        # a BaseException inside a multiprocessing worker kills the worker and hangs the pool, which is outside thejoker
        parent_only = ("run_worker", "write_table_hdf5", "JokerSamples.write", "rejection_sample_helper", "make_full_samples",
                       "JokerSamples.unpack", "marginal_ln_likelihood_helper", "iterative_rejection_helper", "batch_tasks")
        in_workers = ("read_batch", "_worker", "table_header_to_units")
        for key in faults.State.order:
            fn = key.split(":")[1]
            if any(fn.endswith(x) or x in fn for x in parent_only) and not any(x in fn for x in in_workers):
                points.append(("py-base", key, 1))
                points.append(("py-oserror", key, counts[key]))
            elif pk == 0 and any(x in fn for x in in_workers) and (not ctx.quick() or "read_batch" == fn):
                points.append(("py-base", key, 1))
        # the same points with a ValueError (what numerical code raises most): an `except ValueError` written for an expected
        # condition must not swallow an unexpected one. Last invocation of every function (quick), first as well (thorough).
        for key in faults.State.order:
            if key.split(":")[1] in faults.WORKERS and pk:
                continue
            for k in sorted(set([counts[key]] if ctx.quick() else [1, counts[key]])):
                points.append(("py-valueerror", key, k))
        ctx.counters["fault_points_%s_%s_%d_v%d" % (sc + (variant,))] = len(points)
        # in MultiPool scenarios, functions that only run inside workers cannot be hit from the parent: detect by `reached`
        for kindp, key, k in points:
            desc = dict(scenario=list(sc), variant=variant, fault_point=key, invocation=k if not isinstance(k, tuple) else list(k), kind=kindp)
            joker, base = make_joker()
            faults.Boundary.reset(target=(key, k) if kindp.startswith("boundary") else None, oserr=kindp.endswith("oserror"))
            faults.State.fired = 0
            if kindp.startswith("py"):
                # before the pool forks: workers inherit the target
                faults.inject(key, k, base=(kindp == "py-base"), oserr=(kindp == "py-oserror"), value=(kindp == "py-valueerror"))
                if pk:
                    base.close()
                    base = schwimmbad.MultiPool(processes=pk)
                    joker.pool = faults.FaultyPool(base)
            raised = None
            returned = False
            signal.alarm(120)
            try:
                call(joker)
                returned = True
            except Timeout:
                ctx.count("watchdog_fired")
                faults.off()
                signal.alarm(0)
                continue
            except BaseException as e:   # noqa
                raised = e
            finally:
                signal.alarm(0)
                faults.off()
            fired = faults.State.fired + faults.Boundary.fired
            faults.Boundary.reset()
            if returned and fired == 0:
                # fault point executes only inside worker processes (parent-side counter never reached it)
                ctx.count("points_not_reached_in_parent")
                if pk:
                    base.close()
                continue
            ctx.evaluations += 1
            ctx.distinct.add(repr((sc, variant, key, kindp)))
            if returned:
                ctx.violation("fault-swallowed", "a fault injected at %s (invocation %r) did not reach the caller: the call returned"
                              % (key, k), desc)
            elif not faults.chain_has_fault(raised):
                ctx.violation("fault-replaced", "the call raised %r but the injected fault is not in its exception chain"
                              % (raised,), desc)
            elif not faults.fault_is_what_was_raised(raised):
                ctx.violation("fault-masked-by-cleanup-error", "the caller got %r; the injected fault is only its implicit context, "
                              "i.e. another error raised while handling it took its place" % (raised,), desc)
            post_conditions(desc, "after a fault at %s #%r" % (key, k))
            # the same TheJoker must still work
            try:
                ll2 = np.asarray(joker.marginal_ln_likelihood(pb.data, pb.lib, n_batches=2), dtype=float)
                if ll2.tobytes() != ll_clean.tobytes():
                    ctx.violation("sampler-corrupted-after-fault", "after the fault the same TheJoker returns other likelihoods",
                                  desc)
                recgen.reset()
                out, lls = joker.rejection_sample(pb.data, pb.lib, in_memory=True, return_all_logprobs=True)
                bad, info = session.check_rejection_history(pb, dict(in_memory=True, n_linear_samples=1), out, lls,
                                                            list(recgen.EVENTS), ll_clean)
                for key2, msg in bad:
                    if key2 not in ("borderline", "inconclusive-pattern"):
                        ctx.violation("sampler-corrupted-after-fault", "follow-up rejection_sample: %s" % msg, desc)
                post_conditions(desc, "follow-up calls after a fault at %s" % key)
            except Exception as e:
                ctx.exception(e, "follow-up call after a fault at %s" % key, desc, key="sampler-corrupted-after-fault")
            if pk:
                base.close()
        # validation failures are failures too: a prior_samples argument of an unsupported type must be refused and leave
        # nothing behind (only for the object scenarios, once per API)
        if kind == "obj" and pk == 0:
            import pathlib
            bads = {"pathlib.Path": pathlib.Path(upath), "QTable": pb.lib.tbl, "ndarray": np.zeros((3, 5)), "None": None}
            for bname, bobj in bads.items():
                joker, base = make_joker()
                d3 = dict(scenario=list(sc), variant=variant, bad_input=bname)
                try:
                    if api == "marginal":
                        joker.marginal_ln_likelihood(pb.data, bobj)
                    elif api == "rejection":
                        joker.rejection_sample(pb.data, bobj)
                    else:
                        joker.iterative_rejection_sample(pb.data, bobj, n_requested_samples=2, init_batch_size=20)
                    ctx.count("unsupported_input_accepted_" + bname)
                except Exception:
                    pass
                ctx.evaluations += 1
                ctx.distinct.add(repr((sc, variant, "bad-input", bname)))
                post_conditions(d3, "after refusing a %s as prior samples" % bname)
        ctx.sample(dict(scenario=list(sc), functions_reached=len(faults.State.order), fault_points=len(points),
                        first_points=[(k2, k3) for _, k2, k3 in points[:6]]))
        if os.path.exists(upath):
            os.unlink(upath)
