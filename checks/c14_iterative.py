META = {
    "rule": ("seeded iterative_rejection_sample sessions: tagged libraries of 50-20000 rows, n_requested 1-200, "
             "init_batch_size (incl. > library), growth_factor 1-128, max_prior_samples, randomize_prior_order, in-memory "
             "and cache paths, object and file input, data from uninformative to sharply peaked (1-10 iterations, "
             "exhausted library, nothing found), -inf/tied likelihoods injected at the input of the real loop. The "
             "recording Generator supplies each iteration's uniforms and the shuffled order; a wrapper logs which library "
             "rows every likelihood evaluation covered. Offline oracle: return type, length, membership, acceptance by "
             "exp(ll - max over all evaluated) > u of the LAST iteration, first n_requested in evaluation order, budget, "
             "no row twice, must-raise for too-small libraries. distinct_nontrivial = distinct (path, input, randomize, "
             "budget kind, iterations bucket, outcome, injected profile, n_linear) classes."),
    "shards": {"quick": 4, "thorough": 16},
    "timeout": {"quick": 900, "thorough": 3600},
    "min_evaluations": {"quick": 150, "thorough": 3000},
    "assumptions": ["library in internal units (bitwise row identity)", "any raised exception counts as a surfaced failure; "
                    "a raise on a request that the library can serve and with finite likelihoods is reported"],
}
# ---- END META ----
import numpy as np

from tjverif import recgen, session


def run(ctx):
    recgen.install_child_recording()
    session.Inject.install()
    n = ctx.n(90, 420)
    for i in ctx.cases(n):
        rng = ctx.rng(i)
        try:
            S = session.iterative_session(ctx, i, rng)
        except Exception as e:
            ctx.exception(e, "iterative session setup", dict(index=i))
            continue
        pb, opts, desc = S["pb"], S["opts"], S["desc"]
        must_raise = S["first"] > S["budget"]
        iters = len([e for e in S["events"] if e["op"] == "uniform" and e["gen"] == "parent"])
        base_cls = ("mem" if opts["in_memory"] else "cache", "file" if S["as_file"] else "obj",
                    bool(opts.get("randomize_prior_order")), "budget" if opts.get("max_prior_samples") else "nobudget",
                    S["inj_kind"], opts["n_linear_samples"])
        if S["raised"] is not None:
            ctx.evaluations += 1
            ctx.distinct.add(repr(base_cls + ("raised", must_raise)))
            ctx.count("raised_too_small_library" if must_raise else "raised_other")
            ev = np.concatenate(S["eval_log"]) if S["eval_log"] else np.array([], dtype=int)
            finite_seen = bool(len(ev)) and bool(np.any(np.isfinite(S["ll_lib"][ev])))
            nonfinite_seen = bool(len(ev)) and bool(np.any(~np.isfinite(S["ll_lib"][ev])))
            over_budget = (opts.get("max_prior_samples") or 0) > pb.N      # a budget beyond the library may be refused
            if over_budget:
                ctx.count("raised_budget_beyond_library")
            # a non-finite likelihood among the evaluated rows (numerically singular design) makes the in-memory guard
            # raise and leaves the cache path without any acceptable sample: a surfaced failure, which the property allows
            if not must_raise and S["inj_kind"] != "neg-inf" and not over_budget and not nonfinite_seen:
                ctx.exception(S["raised"], "iterative_rejection_sample raised on a request the library can serve", desc,
                              key="unexpected-raise")
            continue
        if must_raise:
            ctx.evaluations += 1
            ctx.violation("small-library-accepted", "first batch of %d exceeds the %d available prior samples but the call "
                          "returned %r" % (S["first"], S["budget"], type(S["ret"]).__name__), desc)
            continue
        bad, info = session.check_iterative_history(pb, opts, S["ret"], S["events"], S["ll_lib"], S["eval_log"])
        keys = [b[0] for b in bad]
        if "inconclusive-pattern" in keys:
            ctx.count("pattern_not_found")
            ctx.note([b[1] for b in bad if b[0] == "inconclusive-pattern"][0])
            if len(keys) == 1:
                continue
        if "borderline" in keys:
            ctx.borderline += 1
            continue
        ctx.evaluations += 1
        it = info.get("iterations", iters)
        ctx.distinct.add(repr(base_cls + ("it1" if it == 1 else "it2-3" if it <= 3 else "it>3",
                                          "exhausted" if info.get("evaluated") == info.get("budget") else "enough")))
        ctx.count("iterations_total", it)
        ctx.count("rows_evaluated", info.get("evaluated", 0))
        for key, msg in bad:
            if key != "inconclusive-pattern":
                ctx.violation(key, msg, dict(desc, iterations=it, evaluated=info.get("evaluated"), budget=info.get("budget")))
        if i % 30 == 0:
            ctx.sample(dict(desc, iterations=it, evaluated=info.get("evaluated"), budget=info.get("budget"),
                            passing_last_iteration=info.get("n_accept_last"), returned_rows=len(S["ret"])))

    # a monitor that could not recognise the recorded draw pattern has not judged that session: if that happens often the
    # verdict is "inconclusive", never "held"
    _skipped = ctx.counters.get("pattern_not_found", 0) + ctx.counters.get("sessions_without_row_identity", 0) \
        + ctx.counters.get("rejection_sessions_without_row_identity", 0) + ctx.counters.get("iterative_sessions_without_row_identity", 0)
    if ctx.replay is None and _skipped > 0.25 * (n):
        ctx.inconclusive = "%d of %d sessions could not be judged (draw pattern or row identity not recognised)" % (_skipped, n)
