META = {
    "rule": ("seeded random RVData constructions (1-40 epochs; unsorted/duplicated times as BMJD floats or Time in "
             "utc/tdb/tcb/tt; rv and error units independently km/s|m/s|cm/s|pc/Myr; 1-D errors or full SPD "
             "covariances; NaN/inf planted in t, rv, err; t_ref None/Time/False; clean True/False) followed by "
             "copy() and random slices/masks/index arrays; every construction, copy and slice is judged by "
             "icontract postconditions on the real RVData methods (unique velocity tags identify the pairing). "
             "distinct_nontrivial = distinct (n>1, time kind, unit pair, cov?, nonfinite kind, t_ref kind, clean, "
             "duplicates?, op) classes that were actually checked."),
    "shards": {"quick": 1, "thorough": 16},
    "timeout": {"quick": 400, "thorough": 2400},
    "min_evaluations": {"quick": 500, "thorough": 10000},
    "assumptions": ["astropy Time scale conversion (x.tcb.mjd) is taken as the definition of the stored BMJD",
                    "NaNs in covariances are planted symmetrically (row and column)",
                    "copy()/slicing are exercised on objects without non-finite entries"],
}
# ---- END META ----
import numpy as np

from tjverif import monitors as M


def gen_case(rng):
    import astropy.units as u
    from astropy.time import Time
    n = int(rng.choice([1, 2, 3, 5, 8, 13, 40], p=[.1, .1, .15, .2, .2, .15, .1]))
    base = rng.uniform(40000, 60000)
    span = 10 ** rng.uniform(-1, 4)
    t = base + rng.uniform(0, span, n)
    dup = False
    if n > 2 and rng.random() < 0.35:
        k = rng.integers(1, n)
        t[k:] = rng.choice(t[:k], n - k)      # duplicated times
        dup = True
    if rng.random() < 0.15:
        t = np.sort(t)                          # already sorted
    elif rng.random() < 0.1:
        t = np.sort(t)[::-1].copy()             # reverse sorted
    units = [u.km / u.s, u.m / u.s, u.cm / u.s, u.pc / u.Myr]
    ru = units[rng.integers(0, 4)]
    eu = ru if rng.random() < 0.6 else units[rng.integers(0, 4)]
    rvv = rng.permutation(n) * 3.0 + rng.uniform(-100, 100) + rng.uniform(0, 0.5, n)   # unique tags
    cov = rng.random() < 0.3
    if cov:
        a = rng.normal(size=(n, n)) * 0.3
        c = a @ a.T + np.diag(rng.uniform(0.5, 2.0, n))
        if rng.random() < 0.4:
            # the same correlated errors at another magnitude (cm/s-level errors written in (km/s)^2 are ~1e-10):
            # nothing about a covariance is "small enough to ignore" on an absolute scale
            c = c * 10.0 ** rng.uniform(-14, 6)
        err = c * eu ** 2
    else:
        err = 10 ** rng.uniform(-2, 1, n) * eu
    nf_kind = "none"
    clean = bool(rng.random() < 0.8)
    tt = t.copy()
    if n >= 2 and rng.random() < 0.45:
        nf_kind = str(rng.choice(["t", "rv", "err", "mixed"]))
        m = int(rng.integers(1, max(2, n // 2)))
        pos = rng.choice(n, size=min(m, n - 1), replace=False)
        bads = [np.nan, np.inf, -np.inf]
        for p in pos:
            which = nf_kind if nf_kind != "mixed" else str(rng.choice(["t", "rv", "err"]))
            b = bads[rng.integers(0, 3)]
            if which == "t":
                if not clean:
                    which = "rv"
                else:
                    tt[p] = b
            if which == "rv":
                rvv[p] = np.nan if not clean else b    # one NaN kind when kept (tag identity)
            if which == "err":
                if cov:
                    v = err.value.copy()
                    v[p, :] = np.nan
                    v[:, p] = np.nan
                    err = v * eu ** 2
                else:
                    v = err.value.copy()
                    v[p] = b if clean else np.nan
                    err = v * eu
        if not clean:
            # keep tags identifiable: at most one NaN velocity
            nn = np.where(np.isnan(rvv))[0]
            for p in nn[1:]:
                rvv[p] = 1e6 + p
    tkind = str(rng.choice(["float", "utc", "tdb", "tcb", "tt"], p=[.4, .15, .15, .15, .15]))
    if tkind == "float":
        t_in = tt
    else:
        fmt = "mjd" if rng.random() < 0.7 else "jd"
        vals = tt if fmt == "mjd" else tt + 2400000.5
        if not np.all(np.isfinite(vals)):
            tkind = "float"
            t_in = tt
        else:
            t_in = Time(vals, format=fmt, scale=tkind)
    r = rng.random()
    if r < 0.5:
        t_ref, trk = None, "none"
    elif r < 0.85:
        sc = str(rng.choice(["tcb", "utc", "tdb"]))
        t_ref, trk = Time(base + rng.uniform(-500, 500), format="mjd", scale=sc), "time-" + sc
    else:
        t_ref, trk = False, "false"
    rv = rvv * ru
    dt_kind = "f8"
    if nf_kind == "none" and not cov and rng.random() < 0.15:
        # other numeric dtypes / memory layouts of the caller's arrays
        dt_kind = str(rng.choice(["f4", "int", "strided", "readonly", "bigendian"]))
        if dt_kind == "f4":
            rv = np.asarray(rvv, dtype=np.float32) * ru
            err = np.asarray(err.value, dtype=np.float32) * eu
        elif dt_kind == "int":
            rv = (rng.permutation(n) * 3 + 7).astype(np.int64) * ru
            err = rng.integers(1, 9, n).astype(np.int64) * eu
        elif dt_kind == "readonly":
            a_ = np.array(rvv, copy=True)
            a_.setflags(write=False)                  # e.g. an array handed out by another library's cache
            e_ = np.array(err.value, copy=True)
            e_.setflags(write=False)
            rv, err = a_ * ru, e_ * eu
        elif dt_kind == "bigendian":
            rv = np.asarray(rvv, dtype=">f8") * ru     # e.g. columns read from a FITS file
            err = np.asarray(err.value, dtype=">f8") * eu
        else:
            big = np.zeros(2 * n)
            big[::2] = rvv
            rv = big[::2] * ru
    scalar = False
    if n == 1 and not cov and nf_kind == "none" and tkind == "float" and rng.random() < 0.5:
        # bare scalars instead of length-1 arrays (a scalar *Time* is refused loudly by the constructor, which
        # documents "array of measurement times"; not part of the property)
        scalar = True
        t_in = float(tt[0])
        rv = rv[0]
        err = err[0]
    cls = (n > 1, tkind, str(ru), str(eu), cov, nf_kind, trk, clean, dup, scalar, dt_kind)
    return dict(t=t_in, rv=rv, rv_err=err, t_ref=t_ref, clean=clean), cls, dict(
        n=n, tkind=tkind, rv_unit=str(ru), err_unit=str(eu), cov=cov, nonfinite=nf_kind, t_ref=trk,
        clean=clean, dup=dup, t_head=np.asarray(tt[:5]), rv_head=rvv[:5])


_TSDIR = []


def check_timeseries(ctx, rng, RVData, d, kw, desc, cls, ops):
    import os
    import tempfile
    import warnings
    import astropy.units as u
    from astropy.time import Time
    from astropy.timeseries import TimeSeries
    if not _TSDIR:
        _TSDIR.append(tempfile.mkdtemp(prefix="c15ts"))
    fn = os.path.join(_TSDIR[0], "ts.hdf5")
    own = bool(rng.random() < 0.4) or not isinstance(kw["t"], Time) or desc["nonfinite"] != "none"
    if own:
        ts = d.to_timeseries()
        exp_t = np.asarray(d._t_bmjd)
        exp_rv = d.rv
        exp_err = d.rv_err
        exp_ref = d._t_ref_bmjd if d.t_ref is not None else None    # "no reference epoch" is not promised to survive
    else:
        # the caller's own TimeSeries, in the caller's scale and order
        ts = TimeSeries(time=kw["t"], data={"rv": kw["rv"], "rv_err": kw["rv_err"]})
        tb = kw["t"].tcb.mjd
        order = np.argsort(tb, kind="stable")
        exp_t = tb[order]
        exp_rv = kw["rv"][order]
        exp_err = kw["rv_err"][order]
        with_ref = bool(rng.random() < 0.5)
        if with_ref:
            ref = Time(float(tb.min()) - float(rng.uniform(0, 30)), format="mjd", scale="tcb")
            ref = getattr(ref, str(rng.choice(["tcb", "utc", "tdb"])))
            ts.meta["t_ref"] = ref
            exp_ref = ref.tcb.mjd
        else:
            exp_ref = float(tb.min())
    with warnings.catch_warnings():
        warnings.simplefilter("ignore")
        ts.write(fn, path="ts", serialize_meta=True, overwrite=True)
        d2 = RVData.from_timeseries(fn, path="ts")
    ctx.evaluations += 1
    op = "timeseries-own" if own else "timeseries-user"
    ops.append(op)
    c = dict(desc, op=op)
    if len(d2) != len(exp_t):
        ctx.violation("timeseries-length", "from_timeseries holds %d observations, the TimeSeries has %d" % (len(d2), len(exp_t)), c)
        return
    dt = float(np.max(np.abs(np.asarray(d2._t_bmjd) - exp_t)))
    dt2 = float(np.max(np.abs(d2.t.tcb.mjd - exp_t)))
    if max(dt, dt2) > 2e-9:
        ctx.violation("timeseries-times-wrong", "epochs read back from a %s TimeSeries differ from its BMJD by %.3g s"
                      % (getattr(ts.time, "scale", "?"), max(dt, dt2) * 86400), c)
    same_t = len(np.unique(exp_t)) < len(exp_t)
    rv2 = d2.rv.to_value(exp_rv.unit)
    er2 = d2.rv_err.to_value(exp_err.unit)
    if same_t:
        # tied epochs may come back in either order: compare as multisets of (t, rv, err) triples
        a = sorted(zip(np.asarray(d2._t_bmjd).round(6), rv2.round(9), er2.round(9)))
        b = sorted(zip(exp_t.round(6), np.asarray(exp_rv.value, float).round(9), np.asarray(exp_err.value, float).round(9)))
        okp = np.allclose(a, b, rtol=1e-6, atol=1e-9)
    else:
        okp = (np.allclose(rv2, np.asarray(exp_rv.value, float), rtol=1e-6, atol=0)
               and np.allclose(er2, np.asarray(exp_err.value, float), rtol=1e-6, atol=0))
    if not okp:
        ctx.violation("timeseries-pairing-broken", "velocities / uncertainties read back from the TimeSeries are not "
                      "those of the same epochs", c)
    if exp_ref is None:
        return
    dref = max(abs(d2._t_ref_bmjd - exp_ref), abs(d2.t_ref.tcb.mjd - exp_ref)) if d2.t_ref is not None else None
    if dref is None or dref > 2e-9:
        ctx.violation("timeseries-t_ref-wrong", "reference epoch after from_timeseries is off by %r d (expected BMJD %.9f)"
                      % (dref, exp_ref), c)


def check_guess_table(ctx, rng, RVData, kw, desc, ops):
    """Columns named jd / mjd (UTC by astropy's default), bjd / bmjd (barycentric: TCB), t / time (format guessed from
    the values); velocity and error columns under their documented names."""
    import astropy.units as u
    from astropy.table import Table
    from astropy.time import Time
    t_in = kw["t"]
    mjd_vals = np.asarray(t_in.mjd if isinstance(t_in, Time) else t_in, dtype=float)     # just numbers to put in a column
    name = str(rng.choice(["mjd", "MJD", "jd", "JD", "bmjd", "BMJD", "bjd", "t", "time", "Time"]))
    low = name.lower()
    fmt = "jd" if low in ("jd", "bjd") else "mjd"
    if low in ("t", "time") and rng.random() < 0.5:
        fmt = "jd"
    vals = mjd_vals + (2400000.5 if fmt == "jd" else 0.0)
    scale = "tcb" if low.startswith("b") else "utc"
    rvn = str(rng.choice(["rv", "RV", "vhelio", "radial_velocity", "VRAD"]))
    ern = str(rng.choice(["%serr", "%s_err", "%s_e", "e_%s"])) % rvn
    tbl = Table()
    tbl[name] = vals
    tbl[rvn] = kw["rv"]
    tbl[ern] = kw["rv_err"]
    if rng.random() < 0.4:
        tbl["snr"] = rng.uniform(5, 100, len(vals))        # an unrelated column
    d2 = RVData.guess_from_table(tbl)
    ctx.evaluations += 1
    ops.append("guess-table-" + low)
    c = dict(desc, op="guess_from_table", time_column=name, time_format=fmt, rv_column=rvn, err_column=ern)
    exp_t_all = Time(vals, format=fmt, scale=scale).tcb.mjd
    order = np.argsort(exp_t_all, kind="stable")
    exp_t = exp_t_all[order]
    if len(d2) != len(exp_t):
        ctx.violation("guess-table-length", "guess_from_table holds %d observations, the table has %d" % (len(d2), len(exp_t)), c)
        return
    dt = float(np.max(np.abs(np.asarray(d2._t_bmjd) - exp_t)))
    if dt > 2e-8:       # jd values near 2.45e6 resolve ~4e-10 d
        ctx.violation("guess-table-times-wrong", "a column named %r (values in %s) was read as epochs %.6g d away from "
                      "Time(values, format=%r, scale=%r)" % (name, fmt, dt, fmt, scale), c)
    if len(np.unique(exp_t)) == len(exp_t):
        rv2 = d2.rv.to_value(kw["rv"].unit)
        er2 = d2.rv_err.to_value(kw["rv_err"].unit)
        if not (np.allclose(rv2, np.asarray(kw["rv"].value, float)[order], rtol=1e-6, atol=0)
                and np.allclose(er2, np.asarray(kw["rv_err"].value, float)[order], rtol=1e-6, atol=0)):
            ctx.violation("guess-table-pairing-broken", "velocities / uncertainties are not those of the same table rows", c)


def run(ctx):
    M.install_rvdata()
    from thejoker.data import RVData
    n = ctx.n(2500, 12000)
    for i in ctx.cases(n):
        rng = ctx.rng(i)
        kw, cls, desc = gen_case(rng)
        desc["index"] = i
        M.drain()
        before = dict(M.COUNTS)
        own = {k_: (np.array(getattr(kw[k_], "value", kw[k_]), copy=True).tobytes() if not hasattr(kw[k_], "mjd")
                    else np.array(kw[k_].mjd, copy=True).tobytes()) for k_ in ("t", "rv", "rv_err")}
        try:
            d = RVData(**kw)
        except Exception as e:
            # valid input must be accepted (at least one finite observation is guaranteed by the generator)
            ctx.violation("init-raises", "RVData(...) raised %r on valid input" % (e,), desc)
            continue
        ops = ["init"]
        now = {k_: (np.array(getattr(kw[k_], "value", kw[k_]), copy=True).tobytes() if not hasattr(kw[k_], "mjd")
                    else np.array(kw[k_].mjd, copy=True).tobytes()) for k_ in ("t", "rv", "rv_err")}
        if now != own:
            ctx.violation("init-modifies-caller-arrays", "RVData(...) changed the arrays it was given: %s"
                          % [k_ for k_ in own if own[k_] != now[k_]], desc)
        finite_all = (np.all(np.isfinite(d._t_bmjd)) and np.all(np.isfinite(d.rv.value))
                      and np.all(np.isfinite(d.rv_err.value)))
        if finite_all and len(d) > 0:
            try:
                d.copy()
                ops.append("copy")
                m = len(d)
                kind = rng.integers(0, 4)
                if kind == 0:
                    a, b = sorted(rng.integers(0, m + 1, 2))
                    if a == b:
                        a, b = 0, m
                    slc = slice(int(a), int(b), int(rng.choice([1, 1, 2, -1])) if m > 2 else 1)
                    if slc.step == -1:
                        slc = slice(None, None, -1)
                elif kind == 1:
                    mask = rng.random(m) < 0.6
                    if not mask.any():
                        mask[rng.integers(0, m)] = True
                    slc = mask
                elif kind == 2:
                    slc = rng.choice(m, size=int(rng.integers(1, m + 1)), replace=False)
                else:
                    slc = slice(None)
                if len(np.arange(m)[slc]) > 0:
                    d[slc]
                    ops.append("slice%d" % kind)
            except Exception as e:
                ctx.violation("copy-or-slice-raises", "%r" % (e,), desc)
        # the other constructor: RVData.from_timeseries on (a) the object's own to_timeseries() and (b) a TimeSeries the
        # user made from the raw arrays in their own time scale - the stored epochs must still be the BMJD of those times
        if finite_all and len(d) > 0 and not d._has_cov and not cls[9] and rng.random() < 0.3:
            try:
                check_timeseries(ctx, rng, RVData, d, kw, desc, cls, ops)
            except Exception as e:
                ctx.exception(e, "to_timeseries / from_timeseries on a valid object", desc)
        # the third constructor: guess_from_table on a table whose column names say what the times are
        if finite_all and len(d) > 0 and not d._has_cov and not cls[9] and desc["nonfinite"] == "none" and rng.random() < 0.2:
            try:
                check_guess_table(ctx, rng, RVData, kw, desc, ops)
            except Exception as e:
                ctx.exception(e, "guess_from_table on a table with standard column names", desc)
        # a multi-step history on one object: ivar read, uncertainties scaled (the package's own tests do `data.rv *= 1.5`),
        # ivar read again - it must be the reciprocal variance of the *current* uncertainties
        if finite_all and len(d) > 0 and rng.random() < 0.5:
            try:
                iv0 = np.array(d.ivar.value, copy=True)
                twin = d.copy()                                   # an independent copy: what happens to d must not reach it
                twin_err0 = np.array(twin.rv_err.value, copy=True)
                twin_rv0 = np.array(twin.rv.value, copy=True)
                fac = float(rng.choice([2.0, 3.0, 0.5]))
                if rng.random() < 0.5:
                    d.rv_err = d.rv_err * (fac ** 2 if d._has_cov else fac)
                else:
                    d.rv_err *= (fac ** 2 if d._has_cov else fac)
                iv1 = np.asarray(d.ivar.value)
                ctx.evaluations += 1
                ops.append("ivar-after-rescale")
                d.rv *= 1.0                                        # (an in-place no-op on the velocities as well)
                if not (np.array_equal(np.asarray(twin.rv_err.value), twin_err0) and np.array_equal(np.asarray(twin.rv.value), twin_rv0)
                        and np.allclose(np.asarray(twin.ivar.value), iv0, rtol=1e-12, atol=0)):
                    ctx.violation("copy-shares-buffers", "changing the uncertainties of an object in place changed its copy() too "
                                  "(the copy does not hold its own arrays)", desc)
                rt = 1e-12 if np.asarray(d.rv_err.value).dtype.itemsize >= 8 else 1e-5
                if not np.allclose(iv1, iv0 / fac ** 2, rtol=max(rt, 1e-9 * (np.linalg.cond(d.rv_err.value) if d._has_cov else 1)), atol=0):
                    ctx.violation("ivar-stale-after-rescale", "after scaling rv_err by %g the inverse variance is not 1/%g^2 of the "
                                  "previous one" % (fac, fac), desc)
            except Exception as e:
                ctx.exception(e, "ivar after rescaling", desc)
        fired = M.drain()
        nchecked = sum(M.COUNTS.get(k, 0) - before.get(k, 0)
                       for k in ("RVData.__init__", "RVData.copy", "RVData.__getitem__"))
        ctx.evaluations += nchecked
        for op in ops:
            ctx.distinct.add(repr(cls + (op,)))
        for f in fired:
            if f["monitor"] == "C15":
                c = dict(desc)
                c["op"] = (f["case"] or {}).get("op")
                c["detail"] = f["case"]
                ctx.violation(f["key"], f["what"], c)
            elif f["monitor"] == "C15-monitor-error":
                ctx.inconclusive = "monitor error: " + f["what"]
        if i % 600 == 0:
            ctx.sample(dict(desc, ops=ops, stored_t_head=np.asarray(d._t_bmjd[:5]), stored_rv_head=d.rv.value[:5]))
    for k in ("RVData.__init__", "RVData.copy", "RVData.__getitem__", "RVData.copy.skipped_nonfinite"):
        ctx.counters[k] = M.COUNTS.get(k, 0)
