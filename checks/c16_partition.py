META = {
    "rule": ("exhaustive grid over (n_tasks, n_batches, start_idx, with/without arr) plus seeded random "
             "large values; a case is one call of the real thejoker.utils.batch_tasks checked by the "
             "partition contract (contiguous, non-empty, ordered, exact cover of the range / of "
             "arr[start:start+n], own start index per task). A second monitor drives the real "
             "multiproc_helpers.run_worker and marginal_ln_likelihood_helper with a capturing pool and unsorted / "
             "repeated / shuffled-contiguous index arrays and demands "
             "that the tasks handed to pool.map cover the supplied array in the supplied order (and that the "
             "results come back in task order). distinct_nontrivial counts distinct "
             "(n_tasks, n_batches, start_idx, arr?) tuples with n_batches>1 and n_tasks>1."),
    "shards": {"quick": 1, "thorough": 16},
    "timeout": {"quick": 300, "thorough": 1800},
    "min_evaluations": {"quick": 10000, "thorough": 100000},
    "exhaustive_key": "grid_complete",
    "assumptions": ["the contract is evaluated on thejoker.utils.batch_tasks as imported from the staged working tree",
                    "tuple/ndarray index arrays only (the callers in multiproc_helpers pass ndarrays)"],
}
# ---- END META ----
import numpy as np

from tjverif import monitors as M


def run(ctx):
    import thejoker.utils as ut
    f = ut.batch_tasks
    if ctx.replay is not None:
        c = ctx.replay["case"]
        cases = [(c["n_tasks"], c["n_batches"], c["start_idx"], c["with_arr"])]
    else:
        cases = None
    nontriv = 0

    def one(n_tasks, n_batches, start_idx, with_arr, rng=None):
        nonlocal nontriv
        arr = None
        if with_arr:
            # unique tags so that a piece names the positions it came from
            arr = np.arange(start_idx + n_tasks + 3)[::-1].copy() * 7 + 1
        args = ["fileX", 42]
        try:
            tasks = f(n_tasks, n_batches, arr=arr, args=args, start_idx=start_idx)
        except Exception as e:  # a raise for valid input is a violation too
            ctx.violation("raises", "batch_tasks raised %r" % (e,),
                          dict(n_tasks=n_tasks, n_batches=n_batches, start_idx=start_idx, with_arr=with_arr))
            return
        ctx.evaluations += 1
        bad = M.check_partition(tasks, n_tasks, n_batches, arr, start_idx, args=args)
        if n_tasks > 1 and n_batches > 1:
            nontriv += 1
        if bad:
            ctx.violation(bad[0], bad[1], dict(n_tasks=n_tasks, n_batches=n_batches,
                                               start_idx=start_idx, with_arr=with_arr,
                                               tasks=[(repr(t[0])[:60], t[1]) for t in tasks[:6]]))
        elif ctx.evaluations % 50021 == 1:
            ctx.sample(dict(n_tasks=n_tasks, n_batches=n_batches, start_idx=start_idx, with_arr=with_arr,
                            tasks=[(repr(t[0])[:40], t[1]) for t in tasks[:4]], n_returned=len(tasks)))

    if cases is not None:
        for c in cases:
            one(*c)
        return

    if ctx.quick():
        NT, NB = 140, 150
    else:
        NT, NB = 300, 320
    starts = [0, 1, 7, 1000]
    # shard the grid by n_tasks
    for n_tasks in range(1 + ctx.shard, NT + 1, ctx.nshards):
        for n_batches in range(1, NB + 1):
            for s in starts:
                one(n_tasks, n_batches, s, False)
                one(n_tasks, n_batches, s, True)
    ctx.counters["grid_complete"] = 1
    ctx.counters["grid_n_tasks_max"] = NT
    ctx.counters["grid_n_batches_max"] = NB
    # random large values
    rng = ctx.rng(0)
    nrand = ctx.n(3000, 30000)
    for i in range(nrand):
        n_tasks = int(10 ** rng.uniform(0, 6.5))
        kind = rng.integers(0, 4)
        if kind == 0:
            n_batches = int(10 ** rng.uniform(0, 3))
        elif kind == 1:
            n_batches = max(1, n_tasks + int(rng.integers(-3, 4)))
        elif kind == 2:
            n_batches = max(1, n_tasks // int(rng.integers(1, 9)) + int(rng.integers(-1, 2)))
        else:
            n_batches = int(rng.integers(1, 65))
        start = int(rng.choice([0, 1, 3, 10 ** int(rng.integers(0, 7))]))
        with_arr = bool(rng.integers(0, 2)) and n_tasks + start < 300000
        if n_batches > 20000:
            n_batches = 20000 if n_tasks > 20000 else n_batches
        one(n_tasks, n_batches, start, with_arr)
    ctx.counters["random_large"] = nrand
    # distinct count: every case is a distinct tuple by construction of the grid;
    # random ones may repeat grid ones, so count conservatively the grid's non-trivial ones
    ctx.distinct_count = nontriv
    # ---------------- the batches the pool actually receives (run_worker) ----------------
    import os
    import astropy.units as u
    import thejoker.multiproc_helpers as mh
    from thejoker import JokerSamples
    lib = JokerSamples()
    Nlib = 97
    lib["P"] = (np.arange(Nlib) + 1.0) * u.day
    lib["e"] = np.zeros(Nlib)
    path = os.path.join(ctx.tmpdir, "c16_lib.hdf5")
    lib.write(path, overwrite=True)

    class CapturePool:
        size = 3

        def __init__(self):
            self.tasks = None

        answer = None

        def map(self, worker, tasks):
            self.tasks = [tuple(t) for t in tasks]
            return [(self.answer or worker)(t) for t in tasks]

    def ident(task):
        body = task[0]
        return np.arange(body[0], body[1]) if isinstance(body, tuple) else np.asarray(body)

    rng = ctx.rng(1)
    for k in range(ctx.n(300, 3000)):
        if k and k % 60 == 0:
            # the cache file is regenerated under the same name with another number of rows: whatever was remembered about
            # the old file (row count, units) must not be applied to the new one
            Nlib = int(rng.choice([40, 97, 150, 263]))
            lib = JokerSamples()
            lib["P"] = (np.arange(Nlib) + 1.0) * u.day
            lib["e"] = np.zeros(Nlib)
            lib.write(path, overwrite=True)
            ctx.count("cache_file_rewritten_with_other_row_count")
        nb = int(rng.choice([1, 2, 3, 5, 8, 13, 97, 120]))
        kindq = str(rng.choice(["idx-shuffled", "idx-repeats", "idx-sorted", "idx-perm-of-block", "idx-block-by-endpoints", "count", "all"]))
        via = "run_worker" if rng.random() < 0.6 else "marginal_ln_likelihood_helper"
        pool = CapturePool()
        kw = dict(n_batches=nb if rng.random() < 0.8 else None)
        if kindq == "count":
            n = int(rng.integers(1, Nlib + 1))
            kw["n_prior_samples"] = n
            want = np.arange(n)
        elif kindq == "all":
            want = np.arange(Nlib)
        else:
            n = int(rng.integers(1, Nlib + 1))
            want = rng.choice(Nlib, size=n, replace=(kindq == "idx-repeats"))
            if kindq == "idx-sorted":
                want = np.sort(want)
            elif kindq == "idx-block-by-endpoints":
                # "looks like one ascending block by its end points": first = min, last = first + len - 1, interior shuffled or
                # taken from elsewhere
                m_ = int(rng.integers(3, 12))
                a = int(rng.integers(0, Nlib - m_))
                if rng.random() < 0.5:
                    mid = rng.permutation(np.arange(a + 1, a + m_ - 1))
                    if len(mid) > 1 and np.all(np.diff(mid) > 0):
                        mid = mid[::-1]
                else:
                    pool_ = np.setdiff1d(np.arange(Nlib), [a, a + m_ - 1])
                    mid = rng.choice(pool_, size=m_ - 2, replace=False)
                want = np.concatenate([[a], mid, [a + m_ - 1]]).astype(int)
            elif kindq == "idx-perm-of-block":
                # a shuffled contiguous block (what randomize_prior_order produces over a whole library)
                a = int(rng.integers(0, Nlib - 1)) if rng.random() < 0.5 else 0
                b = int(rng.integers(a + 2, Nlib + 1)) if rng.random() < 0.5 else Nlib
                want = rng.permutation(np.arange(a, b))
            kw["samples_idx"] = want.copy()
        case = dict(kind=kindq, n_batches=kw["n_batches"], n=int(len(want)), head=want[:8], via=via)
        try:
            if via == "run_worker":
                if rng.random() < 0.4:
                    # the branch make_full_samples uses: one child generator is attached to every task
                    kw["rng"] = np.random.default_rng(int(rng.integers(0, 2 ** 31)))
                    case["with_rng"] = True
                res = mh.run_worker(ident, pool, path, task_args=(), **kw)
            else:
                # one level up: the helper every likelihood evaluation goes through (the pool answers in place of the
                # real worker with the row numbers each task names)
                pool.answer = ident
                res = [np.asarray(mh.marginal_ln_likelihood_helper(joker_helper=None, prior_samples_file=path, pool=pool, **kw))]
        except Exception as e:
            ctx.exception(e, "run_worker", case)
            continue
        ctx.evaluations += 1
        ctx.distinct_count += 1 if k < 40 else 0
        ctx.count("pool_batches_via_" + via)
        got_tasks = np.concatenate([ident(t) for t in pool.tasks]) if pool.tasks else np.array([])
        if got_tasks.shape != want.shape or not np.array_equal(got_tasks, want):
            key = "pool-batches-reordered" if sorted(got_tasks.tolist()) == sorted(want.tolist()) else "pool-batches-wrong-coverage"
            ctx.violation(key, "the batches handed to pool.map cover %s..., the supplied rows are %s... (in this order)"
                          % (got_tasks[:8].tolist(), want[:8].tolist()), case)
            continue
        got_res = np.concatenate(res) if len(res) else np.array([])
        if not np.array_equal(got_res, want):
            ctx.violation("results-not-in-task-order", "run_worker returned results out of task order", case)
        starts = [t[1] for t in pool.tasks]
        if any(b <= a for a, b in zip(starts, starts[1:])) or (starts and starts[0] != 0):
            ctx.violation("wrong-start-index", "task start indices %r" % (starts[:6],), case)
    ctx.counters["run_worker_calls_monitored"] = ctx.n(300, 3000)
    # ---------------- make_full_samples on a large cache: index arrays whose values need more than 8 / 16 bits ----------------
    big = JokerSamples()
    Nbig = 70001
    big["P"] = (np.arange(Nbig) + 1.0) * u.day
    big["e"] = np.zeros(Nbig)
    bpath = os.path.join(ctx.tmpdir, "c16_big.hdf5")
    big.write(bpath, overwrite=True)
    # range requests on the large cache (more rows than 2^16): every row of the request exactly once, whatever the batch count
    for k in range(ctx.n(12, 60)):
        nb = int(rng.choice([1, 2, 3, 7]))
        kw = dict(n_batches=nb)
        if rng.random() < 0.5:
            nreq = int(rng.choice([Nbig, 65536, 65537, 69000]))
            kw["n_prior_samples"] = nreq
        else:
            nreq = Nbig
        pool = CapturePool()
        case = dict(kind="range-on-large-cache", n=nreq, n_batches=nb)
        try:
            res = mh.run_worker(ident, pool, bpath, task_args=(), **kw)
        except Exception as e:
            ctx.exception(e, "run_worker on the large cache", case)
            continue
        ctx.evaluations += 1
        ctx.count("large_cache_range_requests")
        got_tasks = np.concatenate([np.asarray(ident(t), dtype=np.int64) for t in pool.tasks]) if pool.tasks else np.array([])
        if got_tasks.shape != (nreq,) or not np.array_equal(got_tasks, np.arange(nreq)):
            ctx.violation("pool-batches-wrong-coverage", "a request for the first %d rows of a %d-row cache in %d batches was handed to "
                          "the pool as %d rows (tasks %s...)" % (nreq, Nbig, nb, len(got_tasks), [t[0] for t in pool.tasks][:4]), case)
    for k in range(ctx.n(60, 400)):
        n = int(rng.choice([2, 5, 40, 300, 2000]))
        hi = int(rng.choice([300, 3000, 66000, Nbig]))
        want = rng.choice(hi, size=min(n, hi), replace=False)
        shape = str(rng.choice(["shuffled", "small-last", "small-first", "sorted"]))
        if shape == "small-last":
            j = int(np.argmin(want)); want[[j, -1]] = want[[-1, j]]
        elif shape == "small-first":
            j = int(np.argmin(want)); want[[j, 0]] = want[[0, j]]
        elif shape == "sorted":
            want = np.sort(want)
        nb = int(rng.choice([1, 2, 3, 7]))
        pool = CapturePool()
        pool.answer = lambda t: np.zeros((len(ident(t)), 2))
        case = dict(kind="make_full_samples:" + shape, n=int(len(want)), max_index=int(want.max()), last=int(want[-1]), n_batches=nb,
                    head=want[:6])
        try:
            mh.make_full_samples(None, bpath, pool, np.random.default_rng(int(rng.integers(0, 2 ** 31))), want.copy(), n_batches=nb)
        except Exception:
            pass        # the pool answers with dummies, unpacking them may fail: only the tasks handed over are judged
        if pool.tasks is None:
            ctx.violation("raises", "make_full_samples raised before handing anything to the pool", case)
            continue
        ctx.evaluations += 1
        ctx.count("make_full_samples_calls_monitored")
        got_tasks = np.concatenate([np.asarray(ident(t), dtype=np.int64) for t in pool.tasks]) if pool.tasks else np.array([])
        if got_tasks.shape != want.shape or not np.array_equal(got_tasks, want.astype(np.int64)):
            key = "pool-batches-reordered" if sorted(got_tasks.tolist()) == sorted(want.tolist()) else "pool-batches-wrong-coverage"
            ctx.violation(key, "make_full_samples: the batches handed to pool.map carry rows %s..., the accepted rows are %s... "
                          "(max index %d)" % (got_tasks[:6].tolist(), want[:6].tolist(), int(want.max())), case)

