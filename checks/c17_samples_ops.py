META = {
    "rule": ("seeded JokerSamples tables (1-2000 rows; K of both signs and zero; omega/M0 in rad or deg and outside "
             "[0,2pi); P in day or yr; K in km/s or m/s; poly_trend 1-3; 0-2 offsets; with/without t_ref and "
             "ln_prior/ln_likelihood) driven through wrap_K, get_t0/get_time_with_phase, pack/unpack, indexing "
             "(int, numpy int, slice, mask, index array), copy, mean, std, median_period. Every call is judged by an "
             "icontract postcondition with an OLD snapshot; wrap_K and get_t0 are additionally checked through the "
             "RV curve of get_orbit(). distinct_nontrivial = distinct (operation, size bucket, unit system, "
             "metadata kind, K-sign mix) classes checked."),
    "shards": {"quick": 1, "thorough": 16},
    "timeout": {"quick": 600, "thorough": 3000},
    "min_evaluations": {"quick": 2000, "thorough": 20000},
    "assumptions": ["twobody's KeplerOrbit.radial_velocity is the reconstruction used for the curve checks",
                    "curve tolerance 1e-6 (|K|/(1-e)^2 + |trend|); e <= 0.9 in curve checks"],
}
# ---- END META ----
import numpy as np

from tjverif import monitors as M


def gen_table(rng):
    import astropy.units as u
    from astropy.time import Time
    from thejoker import JokerSamples
    n = int(rng.choice([1, 2, 3, 7, 30, 200, 2000], p=[.12, .12, .16, .2, .2, .15, .05]))
    poly = int(rng.integers(1, 4))
    noff = int(rng.integers(0, 3))
    has_tref = rng.random() < 0.75
    # the reference epoch may be on any time scale (astropy's default is UTC; RVData hands over whatever the user gave)
    t_ref = Time(rng.uniform(50000, 60000), format="mjd", scale=str(rng.choice(["tcb", "tcb", "utc", "tdb", "tt"]))) if has_tref else None
    s = JokerSamples(t_ref=t_ref, poly_trend=poly, n_offsets=noff)
    final = s
    s = {}          # columns are collected first and inserted in a random order below
    Pu = u.day if rng.random() < 0.6 else u.yr
    au = u.rad if rng.random() < 0.55 else u.deg
    Ku = u.km / u.s if rng.random() < 0.6 else u.m / u.s
    P = 10 ** rng.uniform(-1, 3.5, n) * (1 + np.arange(n) * 1e-6)
    if n >= 2 and rng.random() < 0.2:
        # every period repeated 2-3 times with other linear parameters: what rejection_sample(n_linear_samples > 1) returns
        rep = int(rng.choice([2, 3]))
        P = np.repeat(P[: max(1, n // rep) + 1], rep)[:n]
    s["P"] = (P * u.day).to(Pu)
    mixed = False
    s["e"] = rng.uniform(0, 0.9, n)
    full = (2 * np.pi * u.rad).to_value(au)
    wide = rng.random() < 0.4
    lo, hi = (-1.5 * full, 2.5 * full) if wide else (0, full)
    s["omega"] = rng.uniform(lo, hi, n) * au
    s["M0"] = rng.uniform(lo, hi, n) * au
    s["s"] = np.abs(rng.normal(size=n)) * Ku
    ksign = str(rng.choice(["mixed", "positive", "negative", "with-zero"]))
    K = rng.normal(size=n) * 10
    if ksign == "positive":
        K = np.abs(K)
    elif ksign == "negative":
        K = -np.abs(K) - 1e-3
    elif ksign == "with-zero":
        K[rng.integers(0, n)] = 0.0
    s["K"] = K * Ku
    for i in range(poly):
        s["v%d" % i] = rng.normal(size=n) * 10.0 ** (-2 * i) * Ku / u.day ** i
    for k in range(1, noff + 1):
        s["dv0_%d" % k] = rng.normal(size=n) * Ku
    lp = rng.random() < 0.5
    if lp:
        s["ln_prior"] = rng.normal(size=n)
        s["ln_likelihood"] = rng.normal(size=n)
    names_in = list(s.keys())
    shuffled = rng.random() < 0.5
    if shuffled:
        names_in = [names_in[j] for j in rng.permutation(len(names_in))]
    for k in names_in:
        final[k] = s[k]
    s = final
    cls = ("n1" if n == 1 else "n2-7" if n <= 7 else "n>7", str(Pu), str(au), str(Ku), poly, noff, has_tref, lp,
           ksign, wide, shuffled, mixed)
    return s, cls, dict(n=n, P_unit=str(Pu), angle_unit=str(au), K_unit=str(Ku), poly_trend=poly, n_offsets=noff,
                        t_ref=has_tref, logprobs=lp, K_sign=ksign, wide_angles=bool(wide))


def rv_curve(s, i, times):
    orb = s.get_orbit(i)
    return orb.radial_velocity(times)


def run(ctx):
    import astropy.units as u
    from astropy.time import Time
    M.install_samples()
    from thejoker import JokerSamples
    n = ctx.n(700, 4000)
    mon = ["JokerSamples.wrap_K", "JokerSamples.get_time_with_phase", "JokerSamples.median_period",
           "JokerSamples.copy", "JokerSamples.mean", "JokerSamples.std", "JokerSamples.__getitem__"]
    for i in ctx.cases(n):
        rng = ctx.rng(i)
        s, cls, desc = gen_table(rng)
        desc["index"] = i
        N = len(s)
        M.drain()
        before = sum(M.COUNTS.get(k, 0) for k in mon)
        ops = []
        extra = 0
        try:
            # indexing
            keys = [int(rng.integers(0, N)), np.int64(rng.integers(0, N)), slice(0, max(1, N // 2)),
                    slice(None, None, 2), rng.random(N) < 0.5, rng.choice(N, size=min(N, 5), replace=False)]
            if N <= 200:
                # plain Python sequences as keys
                mk = (rng.random(N) < 0.5)
                if not mk.any():
                    mk[0] = True
                keys += [[bool(x) for x in mk], [int(x) for x in rng.choice(N, size=min(N, 4), replace=False)]]
            # from the end: negative integers (Python and numpy), reversed and tail slices, negative / repeated index arrays
            keys += [-1, -N, -int(rng.integers(1, N + 1)), np.int64(-int(rng.integers(1, N + 1))), slice(None, None, -1),
                     slice(-int(rng.integers(1, N + 1)), None), rng.integers(-N, N, size=min(N + 2, 6))]
            for k in keys:
                if isinstance(k, np.ndarray) and k.dtype == bool and not k.any():
                    k[0] = True
                s[k]
            # selections of zero rows keep the columns, units and metadata (judged by the same contract)
            keys_empty = [np.zeros(N, dtype=bool), slice(0, 0), np.array([], dtype=int)]
            for k in keys_empty:
                emp = s[k]
                extra += 1
                if len(emp) != 0 or list(emp.par_names) != list(s.par_names):
                    ctx.violation("getitem-rows", "an empty selection %r returned %d rows with columns %r (table has %r)"
                                  % (k, len(emp), list(emp.par_names), list(s.par_names)), desc)
                    break
            # a slice of a slice, and a row of a slice
            if N >= 3:
                part = s[1:]
                part[::-1]
                part[-1]
            ops.append("getitem")
            cp = s.copy(); ops.append("copy")
            # a copy is independent: changing it (wrap_K in place) leaves the original's columns bit-identical
            before_cols = {k_: np.array(getattr(s.tbl[k_], "value", s.tbl[k_]), copy=True).tobytes() for k_ in s.tbl.colnames}
            cp.wrap_K()
            extra += 1
            changed_cols = [k_ for k_ in s.tbl.colnames
                            if np.array(getattr(s.tbl[k_], "value", s.tbl[k_]), copy=True).tobytes() != before_cols[k_]]
            if changed_cols:
                ctx.violation("copy-aliases-original", "wrap_K() on a copy() changed the original's columns %s" % changed_cols, desc)
            s.mean(); ops.append("mean")
            s.std(); ops.append("std")
            s.median_period(); ops.append("median_period")
            # pack / unpack
            for nonlinear_only in (True, False, "explicit"):
                if nonlinear_only == "explicit":
                    # an explicit column order (any subset, any order)
                    nm_ = [s.par_names[j] for j in rng.permutation(len(s.par_names))[:int(rng.integers(1, len(s.par_names) + 1))]]
                    arr, units = s.pack(names=nm_)
                else:
                    arr, units = s.pack(nonlinear_only=nonlinear_only)
                back = JokerSamples.unpack(arr, units, t_ref=s.t_ref, poly_trend=s.poly_trend, n_offsets=s.n_offsets)
                extra += 1
                names = list(units.keys())
                want_names = nm_ if nonlinear_only == "explicit" else ["P", "e", "omega", "M0", "s"] if nonlinear_only else s.par_names
                bad = None
                if names != want_names or back.par_names != want_names:
                    bad = "names %r -> %r" % (want_names, back.par_names)
                else:
                    for j, k in enumerate(names):
                        col = back.tbl[k]
                        if u.Unit(col.unit) != u.Unit(units[k]):
                            bad = "unit of %s: %s != %s" % (k, col.unit, units[k])
                        elif (k not in ("P", "e", "omega", "M0") and hasattr(s.tbl[k], "unit") and s.tbl[k].unit is not None
                              and u.Unit(units[k]) != u.Unit(s.tbl[k].unit)):
                            # no units were asked for: a linear or jitter column is packed in the table's own unit, whatever other
                            # tables this process packed before
                            bad = "unit of %s: the table has %s, pack() without units returned %s" % (k, s.tbl[k].unit, units[k])
                        elif not np.array_equal(np.asarray(col.value), arr[:, j]):
                            bad = "values of %s changed in unpack" % k
                        else:
                            orig = s.tbl[k]
                            ov = orig.to_value(units[k]) if hasattr(orig, "to_value") else np.asarray(orig)
                            if not np.allclose(np.asarray(col.value), ov, rtol=1e-14, atol=0):
                                bad = "values of %s differ from the original after pack/unpack" % k
                        if bad:
                            break
                    if not bad and M._meta_of(back) != M._meta_of(s):
                        bad = "metadata not carried by unpack"
                if bad:
                    ctx.violation("pack-unpack", "unpack(pack(x)) != x: " + bad, dict(desc, nonlinear_only=nonlinear_only))
            ops.append("pack-unpack")
            # a table whose first column is single precision while the others are double (periods read from a catalogue):
            # packing must not squeeze the double-precision columns through the first column's type
            if rng.random() < 0.2:
                s32 = s.copy()
                s32["P"] = s32["P"].astype(np.float32)
                arr, units = s32.pack(nonlinear_only=False)
                back = JokerSamples.unpack(arr, units, t_ref=s32.t_ref, poly_trend=s32.poly_trend, n_offsets=s32.n_offsets)
                extra += 1
                ops.append("pack-unpack-mixed-precision")
                for k in units:
                    if k == "P":
                        continue
                    orig = s.tbl[k]
                    ov = orig.to_value(units[k]) if hasattr(orig, "to_value") else np.asarray(orig)
                    if not np.allclose(np.asarray(back.tbl[k].value if hasattr(back.tbl[k], "value") else back.tbl[k]), ov, rtol=1e-14, atol=0):
                        ctx.violation("pack-unpack", "unpack(pack(x)) != x: double-precision column %s lost precision because the "
                                      "first column is single precision" % k, dict(desc, column=k))
                        break
            # metadata that is present but "falsy": a numeric reference epoch of 0.0 (times counted from zero; the class documents
            # `t_ref : Time or numeric`) must survive indexing, copying and median_period like any other
            if rng.random() < 0.15:
                tnum = float(rng.choice([0.0, 0.0, 54321.5]))
                sn = JokerSamples(t_ref=tnum, poly_trend=s.poly_trend, n_offsets=s.n_offsets)
                for k_ in s.par_names:
                    sn[k_] = s[k_]
                M.drain()
                derived = {"slice": sn[0:max(1, N // 2)], "mask": sn[np.arange(N) % 2 == 0], "int": sn[0], "copy": sn.copy(),
                           "median_period": sn.median_period()}
                M.drain()          # the contracts' metadata comparison is written for Time epochs: judged here instead
                extra += 1
                ops.append("numeric-t_ref")
                for nm_, obj_ in derived.items():
                    if obj_.t_ref is None or float(obj_.t_ref) != tnum or obj_.poly_trend != s.poly_trend or obj_.n_offsets != s.n_offsets:
                        ctx.violation("metadata-lost", "%s of a table with numeric t_ref=%r: (t_ref, poly_trend, n_offsets) became %r"
                                      % (nm_, tnum, (obj_.t_ref, obj_.poly_trend, obj_.n_offsets)), dict(desc, op=nm_))
                        break
            # phase times
            phase = rng.uniform(-7, 7) * u.rad if rng.random() < 0.7 else rng.uniform(-400, 400) * u.deg
            if s.t_ref is not None:
                s.get_time_with_phase(phase)
                t0 = s.get_t0()
                ops.append("phase-time")
                # through the curve: periastron velocity at t0
                for r in rng.choice(N, size=min(N, 3), replace=False):
                    r = int(r)
                    t0r = t0[r] if getattr(t0, "shape", ()) else t0
                    got = float(np.squeeze(rv_curve(s, r, t0r).to_value(s["K"].unit)))
                    e = float(s["e"][r]); K = s["K"][r].to_value(s["K"].unit)
                    w = s["omega"][r].to_value(u.rad)
                    dt = (t0r - s.t_ref).to_value(u.day)
                    trend = sum(s["v%d" % j][r].to_value(s["K"].unit / u.day ** j) * dt ** j
                                for j in range(s.poly_trend))
                    want = K * (1 + e) * np.cos(w) + trend
                    extra += 1
                    tol = 1e-6 * (abs(K) / (1 - e) ** 2 + abs(trend) + 1e-3)
                    if abs(float(got) - want) > tol:
                        ctx.violation("t0-not-periastron", "RV at get_t0() is %.9g, periastron value %.9g" % (got, want),
                                      dict(desc, row=r, e=e, K=K, omega=w))
            else:
                tr = Time(55000.0, format="mjd", scale=str(rng.choice(["tcb", "utc", "tdb"])))
                s.get_time_with_phase(phase, t_ref=tr)
                ops.append("phase-time-explicit-tref")
            # wrap_K through the curve, then the contract
            rows = [int(r) for r in rng.choice(N, size=min(N, 4), replace=False)]
            curves0 = None
            if s.t_ref is not None:
                tt = s.t_ref + np.linspace(-3, 40, 23) * u.day
                curves0 = [rv_curve(s, r, tt).to_value(s["K"].unit) for r in rows]
            arr_before, _ = s.pack(nonlinear_only=False)
            s.wrap_K()
            ops.append("wrap_K")
            arr_after, units_after = s.pack(nonlinear_only=False)           # same arguments as before the wrap
            extra += 1
            for j_, k_ in enumerate(units_after.keys()):
                if not np.array_equal(arr_after[:, j_], np.asarray(s.tbl[k_].to_value(units_after[k_]) if hasattr(s.tbl[k_], "to_value")
                                                                    else s.tbl[k_])):
                    ctx.violation("pack-stale-after-wrap_K", "pack() after wrap_K() does not reflect the table (column %s): a result "
                                  "remembered from before the wrap" % k_, dict(desc, column=k_))
                    break
            if curves0 is not None:
                # (nothing is cleared by hand here: whatever the object remembered from the calls before the wrap is part of
                # what the next get_orbit() may wrongly reuse)
                for r, c0 in zip(rows, curves0):
                    c1 = rv_curve(s, r, tt).to_value(s["K"].unit)
                    extra += 1
                    scale = abs(s["K"][r].value) / (1 - float(s["e"][r])) ** 2 + np.max(np.abs(c0)) + 1e-6
                    if np.max(np.abs(c1 - c0)) > 1e-7 * scale:
                        ctx.violation("wrap_K-changes-curve", "RV curve of row %d moved by %.3g after wrap_K"
                                      % (r, np.max(np.abs(c1 - c0))), dict(desc, row=r))
        except Exception as e:
            ctx.exception(e, "operation after %r" % (ops,), desc)
        nchecked = sum(M.COUNTS.get(k, 0) for k in mon) - before + extra
        ctx.evaluations += nchecked
        for op in ops:
            ctx.distinct.add(repr((op,) + cls))
        for f in M.drain():
            if f["monitor"] == "C17":
                ctx.violation(f["key"], f["what"], dict(desc, detail=f["case"]))
            elif f["monitor"] == "C17-monitor-error":
                ctx.inconclusive = "monitor error: " + f["what"]
        if i % 200 == 0:
            ctx.sample(dict(desc, ops=ops, K_head=s["K"].value[:4], omega_head=s["omega"].value[:4]))
    for k in mon:
        ctx.counters[k] = M.COUNTS.get(k, 0)
