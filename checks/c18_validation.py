META = {
    "rule": ("a validity predicate written from the property is evaluated next to the real constructors on systematic single "
             "and double corruptions of valid specifications: drop each parameter; omit or replace each unit by an "
             "inconvertible one (valid twins use convertible units); replace each linear prior (K, v_i, dv0_k) by Uniform, "
             "StudentT, Laplace, LogNormal, HalfNormal, TruncatedNormal, SkewNormal, Cauchy, a deterministic transform of a "
             "Normal, a constant; 1-4 data sources against 0-3 offsets (list and dict); sources that are tuples, tables, None, "
             "covariance RVData; bad pool / rng / prior arguments of TheJoker. Valid => succeeds and par_names is nonlinear + "
             "linear + offsets in that order; invalid => JokerPrior(...) / JokerPrior.default(...) / "
             "TheJoker(...).marginal_ln_likelihood(...) raises (any exception). "
             "distinct_nontrivial = distinct (constructor, corruption kind, parameter, poly_trend, n_offsets) tuples."),
    "shards": {"quick": 2, "thorough": 16},
    "timeout": {"quick": 900, "thorough": 3600},
    "min_evaluations": {"quick": 300, "thorough": 3000},
    "exhaustive_key": "systematic_grid_complete",
    "assumptions": ["any exception type counts as a refusal; a silent success on an invalid specification is the violation",
                    "the validity predicate is the property's text: all parameters present, units convertible to the canonical "
                    "ones, Normal (or FixedCompanionMass) linear priors, sources = offsets + 1, each source a plain RVData"],
}
# ---- END META ----
import itertools

import numpy as np

NONLIN = ["P", "e", "omega", "M0", "s"]


def build(spec):
    """spec: dict(poly, noff, drop=set, nounit=set, badunit=set, altunit=bool, lin_kind={name: kind}, kdefault=bool)
    Returns a JokerPrior (may raise)."""
    import astropy.units as u
    import pymc as pm
    import pytensor.tensor as pt
    import thejoker.units as xu
    from thejoker import JokerPrior
    from thejoker.distributions import FixedCompanionMass
    poly, noff = spec["poly"], spec["noff"]
    alt = spec.get("altunit", False)
    good_units = {"P": u.yr if alt else u.day, "e": u.one, "omega": u.deg if alt else u.rad, "M0": u.deg if alt else u.rad,
                  "s": u.m / u.s if alt else u.km / u.s, "K": u.m / u.s if alt else u.km / u.s}
    bad_units = {"P": u.km / u.s, "e": u.day, "omega": u.day, "M0": u.km, "s": u.day, "K": u.day}
    if spec.get("subtle"):
        # units that differ from a valid one only by an angle factor / dimensionless-vs-radian confusion
        bad_units = {"P": u.day * u.rad, "e": u.rad, "omega": u.one, "M0": u.one, "s": u.km / u.s * u.rad,
                     "K": u.km / u.s / u.rad}
    for i in range(poly):
        good_units["v%d" % i] = (u.m / u.s if alt else u.km / u.s) / u.day ** i
        bad_units["v%d" % i] = u.km / u.s / u.day ** (i + 1)
    for k in range(1, noff + 1):
        good_units["dv0_%d" % k] = u.cm / u.s if alt else u.km / u.s
        bad_units["dv0_%d" % k] = u.kg

    def unit_wrap(name, var):
        if name in spec.get("nounit", ()):
            return var
        un = bad_units[name] if name in spec.get("badunit", ()) else good_units[name]
        return xu.with_unit(var, un)

    def linear(name, sd):
        kind = spec.get("lin_kind", {}).get(name, "Normal")
        if kind == "Normal":
            return pm.Normal(name, 0.5, sd)
        if kind == "Uniform":
            return pm.Uniform(name, -sd, sd)
        if kind == "StudentT":
            return pm.StudentT(name, nu=3, mu=0, sigma=sd)
        if kind == "Laplace":
            return pm.Laplace(name, 0, sd)
        if kind == "LogNormal":
            return pm.LogNormal(name, 0, 1)
        if kind == "HalfNormal":
            return pm.HalfNormal(name, sd)
        if kind == "TruncatedNormal":
            return pm.TruncatedNormal(name, mu=0, sigma=sd, lower=-2 * sd, upper=2 * sd)
        if kind == "SkewNormal":
            return pm.SkewNormal(name, mu=0, sigma=sd, alpha=2)
        if kind == "Cauchy":
            return pm.Cauchy(name, 0, sd)
        if kind == "Deterministic":
            return pm.Deterministic(name, 2.0 * pm.Normal(name + "_raw", 0, sd))
        if kind == "Constant":
            return pt.constant(1.5, name=name)
        if kind == "Float":
            return 3.0
        raise KeyError(kind)

    with pm.Model() as model:
        pars = {}
        cand = {}
        cand["P"] = lambda: pm.Uniform("P", 1, 100)
        cand["e"] = lambda: pm.Beta("e", 0.9, 3.0)
        cand["omega"] = lambda: pm.Uniform("omega", 0, 6.28)
        cand["M0"] = lambda: pm.Uniform("M0", 0, 6.28)
        cand["s"] = lambda: pm.LogNormal("s", 0, 0.5)
        for name in NONLIN:
            if name in spec.get("drop", ()):
                if spec.get("drop_on_model"):
                    unit_wrap(name, cand[name]())       # the variable exists on the model, it is just not handed over in `pars`
                continue
            pars[name] = unit_wrap(name, cand[name]())
        if "K" not in spec.get("drop", ()):
            if spec.get("kdefault") and "P" in pars and "e" in pars and spec.get("lin_kind", {}).get("K", "Normal") == "Normal":
                pars["K"] = unit_wrap("K", FixedCompanionMass("K", P=pars["P"], e=pars["e"], sigma_K0=30 * u.km / u.s,
                                                              P0=1 * u.yr))
            else:
                v = linear("K", 30.0)
                pars["K"] = unit_wrap("K", v) if not isinstance(v, float) else v
        for i in range(poly):
            nm = "v%d" % i
            if nm in spec.get("drop", ()):
                if spec.get("drop_on_model"):
                    v_ = linear(nm, 10.0 ** (1 - i))
                    if not isinstance(v_, float):
                        unit_wrap(nm, v_)
                continue
            v = linear(nm, 10.0 ** (1 - i))
            pars[nm] = unit_wrap(nm, v) if not isinstance(v, float) else v
        offs = []
        for k in range(1, noff + 1):
            nm = "dv0_%d" % k
            v = linear(nm, 5.0)
            offs.append(unit_wrap(nm, v) if not isinstance(v, float) else v)
        if spec.get("offset_alias") and noff >= 1:
            # `pars` also carries an entry under the offset's name (a Normal variable with another pymc name): what is checked
            # must be what is marginalised over, i.e. the variable handed over in v0_offsets
            pars["dv0_1"] = unit_wrap("dv0_1", pm.Normal("dv0_alias", 0.0, 5.0))
        form = spec.get("pars_form", "dict")
        pp = pars if form == "dict" else [pars[k] for k in pars if hasattr(pars[k], "name")]
        if spec.get("use_default"):
            return JokerPrior.default(pars=pars, poly_trend=poly, v0_offsets=offs or None, model=model)
        return JokerPrior(pars=pp, poly_trend=poly, v0_offsets=offs or None, model=model)


def expected_names(poly, noff):
    return NONLIN + ["K"] + ["v%d" % i for i in range(poly)] + ["dv0_%d" % k for k in range(1, noff + 1)]


def ordinary_session():
    """What a user's process has usually done before the next prior is built: sample a prior, run the sampler, look at the
    result (t0, orbit, table operations, a file round trip). Validation must not depend on it (process-wide state such as
    astropy's enabled unit equivalencies included)."""
    import os
    import tempfile
    import astropy.units as u
    from thejoker import JokerPrior, RVData, TheJoker, JokerSamples
    rng = np.random.default_rng(5)
    t = 55000 + np.sort(rng.uniform(0, 100, 8))
    data = RVData(t, rng.normal(0, 5, 8) * u.km / u.s, np.full(8, 0.5) * u.km / u.s)
    prior = JokerPrior.default(P_min=2 * u.day, P_max=200 * u.day, sigma_K0=30 * u.km / u.s, sigma_v=100 * u.km / u.s)
    lib = prior.sample(size=300, rng=np.random.default_rng(1), return_logprobs=True)
    post = TheJoker(prior, rng=np.random.default_rng(2)).rejection_sample(data, lib, return_logprobs=True)
    post.get_t0()
    post.get_time_with_phase(0.5 * u.rad)
    post.get_orbit(0).radial_velocity(data.t)
    post.wrap_K()
    post.pack()
    post[0:1].copy()
    post.median_period()
    d = tempfile.mkdtemp()
    post.write(os.path.join(d, "post.hdf5"), overwrite=True)
    JokerSamples.read(os.path.join(d, "post.hdf5"))
    data.phase(P=3 * u.day)


def run(ctx):
    import astropy.units as u
    from astropy.table import Table
    from thejoker import JokerPrior, RVData, TheJoker
    try:
        ordinary_session()
        ctx.count("ordinary_session_before_validation")
    except Exception as e:
        ctx.exception(e, "ordinary session before the validation grid", dict())

    def attempt(spec, valid, what, param):
        desc = dict(spec={k: (sorted(v) if isinstance(v, set) else v) for k, v in spec.items()}, expected_valid=valid,
                    corruption=what, parameter=param)
        ctx.evaluations += 1
        ctx.distinct.add(repr(("prior", what, param, spec["poly"], spec["noff"], bool(spec.get("use_default")))))
        try:
            prior = build(spec)
        except Exception as e:
            if valid:
                ctx.exception(e, "a valid prior specification (%s) was refused" % what, desc, key="valid-prior-refused") or \
                    ctx.violation("valid-prior-refused", "valid specification refused: %r" % (e,), desc)
            return None
        if not valid:
            ctx.violation("invalid-prior-accepted", "JokerPrior accepted an invalid specification: %s of %s"
                          % (what, param), desc)
            return None
        want = expected_names(spec["poly"], spec["noff"])
        if list(prior.par_names) != want:
            ctx.violation("par-names-order", "par_names %r, expected %r" % (prior.par_names, want), desc)
        return prior

    grids = [(p, o) for p in (1, 2, 3) for o in (0, 1, 2)] if ctx.quick() else \
            [(p, o) for p in (1, 2, 3, 4) for o in (0, 1, 2, 3)]
    grids = grids[ctx.shard::ctx.nshards]
    priors = {}
    for poly, noff in grids:
        lin_names = ["K"] + ["v%d" % i for i in range(poly)] + ["dv0_%d" % k for k in range(1, noff + 1)]
        allnames = NONLIN + ["K"] + ["v%d" % i for i in range(poly)]
        for use_default in (False, True):
            base = dict(poly=poly, noff=noff, use_default=use_default)
            priors[(poly, noff)] = attempt(dict(base), True, "none", "-") or priors.get((poly, noff))
            attempt(dict(base, altunit=True), True, "convertible-units", "all")
            attempt(dict(base, kdefault=True), True, "FixedCompanionMass-K", "K")
            if not use_default:
                attempt(dict(base, pars_form="list"), True, "pars-as-list", "all")
            for nm in allnames:
                if use_default and nm in ("e", "omega", "M0", "s"):
                    # JokerPrior.default supplies its documented default for these: still a complete, valid prior
                    attempt(dict(base, drop={nm}), True, "parameter-left-to-default", nm)
                elif use_default:
                    # P, K and the trend terms have no default without P_min/P_max, sigma_K0/P0, sigma_v: must raise
                    attempt(dict(base, drop={nm}), False, "missing-parameter", nm)
                elif not use_default:
                    attempt(dict(base, drop={nm}), False, "missing-parameter", nm)
                    if nm in NONLIN or nm.startswith("v"):
                        # ... also when a variable of that name lives on the model: `pars` is what the caller declares
                        attempt(dict(base, drop={nm}, drop_on_model=True), False, "missing-parameter-present-on-model", nm)
                attempt(dict(base, nounit={nm}), False, "missing-unit", nm)
                if nm != "e":
                    attempt(dict(base, badunit={nm}), False, "inconvertible-unit", nm)
                if nm in ("P", "e", "omega", "M0", "s", "K"):
                    attempt(dict(base, badunit={nm}, subtle=True), False, "angle-confused-unit", nm)
            for k in range(1, noff + 1):
                attempt(dict(base, nounit={"dv0_%d" % k}), False, "missing-unit", "dv0_%d" % k)
                attempt(dict(base, badunit={"dv0_%d" % k}), False, "inconvertible-unit", "dv0_%d" % k)
            if noff >= 1:
                for kind in ("Uniform", "StudentT"):
                    attempt(dict(base, lin_kind={"dv0_1": kind}, offset_alias=True), False, "non-Normal-offset-shadowed-in-pars:" + kind, "dv0_1")
            for nm in lin_names:
                for kind in ["Uniform", "StudentT", "Laplace", "LogNormal", "HalfNormal", "TruncatedNormal", "SkewNormal",
                             "Cauchy", "Deterministic", "Constant", "Float"]:
                    attempt(dict(base, lin_kind={nm: kind}), False, "non-Normal-linear-prior:" + kind, nm)
                    if nm != "K" and kind in ("Uniform", "StudentT", "HalfNormal", "Deterministic"):
                        # ... also next to the package's own (valid, non-Normal-class) FixedCompanionMass prior on K
                        attempt(dict(base, kdefault=True, lin_kind={nm: kind}), False, "non-Normal-linear-prior-with-default-K:" + kind, nm)
        # double corruptions (seeded)
        rng = ctx.rng(poly, noff)
        for _ in range(ctx.n(6, 25)):
            a, b = rng.choice(allnames, size=2, replace=False)
            attempt(dict(poly=poly, noff=noff, badunit={str(a)}, lin_kind={lin_names[rng.integers(0, len(lin_names))]: "Laplace"}),
                    False, "double", "%s+linear" % a)
            attempt(dict(poly=poly, noff=noff, drop={str(a)}, nounit={str(b)}), False, "double", "%s+%s" % (a, b))
    ctx.counters["systematic_grid_complete"] = 1
    # -------- data sources vs offsets, source forms, TheJoker arguments
    import schwimmbad
    from thejoker import JokerSamples
    rng = ctx.rng(999)

    def mk(n, cov=False, t0=55000.0):
        t = t0 + np.sort(rng.uniform(0, 50, n))
        rv = rng.normal(size=n) * u.km / u.s
        if cov:
            return RVData(t, rv, np.diag(np.full(n, 0.1 ** 2)) * (u.km / u.s) ** 2)
        return RVData(t, rv, np.full(n, 0.1) * u.km / u.s)
    samples = JokerSamples()
    samples["P"] = [3.3, 7.1] * u.day
    samples["e"] = [0.1, 0.4]
    samples["omega"] = [0.2, 1.0] * u.rad
    samples["M0"] = [0.5, 2.0] * u.rad
    samples["s"] = [0.0, 0.1] * u.km / u.s
    for (poly, noff), prior in priors.items():
        if prior is None:
            continue
        joker = TheJoker(prior)
        for nsrc in (1, 2, 3, 4):
            for form in ("bare", "list", "dict", "dict-names", "dict-int", "tuple"):
                if form == "bare" and nsrc != 1:
                    continue
                srcs = [mk(4, t0=55000 + 100 * k) for k in range(nsrc)]
                if form == "dict-names":
                    # survey names of unequal length, later ones extending the first (distinct keys are distinct sources)
                    names = [["apo", "lamost", "apo_dr17", "apo2"], ["s1", "s2", "s10", "s11"],
                             ["a", "ab", "abc", "b"]][int(rng.integers(0, 3))]
                    data = {names[k]: d for k, d in enumerate(srcs)}
                elif form == "dict-int":
                    data = {int(7 + 3 * k): d for k, d in enumerate(srcs)}
                elif form == "tuple":
                    data = tuple(srcs)
                else:
                    data = srcs[0] if form == "bare" else srcs if form == "list" else {("s%d" % k): d for k, d in enumerate(srcs)}
                valid = (nsrc == noff + 1)
                ctx.evaluations += 1
                ctx.distinct.add(repr(("sources", form, nsrc, noff, poly)))
                desc = dict(n_sources=nsrc, n_offsets=noff, form=form, poly_trend=poly, expected_valid=valid)
                try:
                    ll = joker.marginal_ln_likelihood(data, samples, in_memory=True)
                    if not valid:
                        ctx.violation("source-offset-mismatch-accepted", "%d source(s) (%s) accepted with %d offset prior(s)"
                                      % (nsrc, form, noff), desc)
                    elif len(ll) != 2 or not np.all(np.isfinite(ll)):
                        ctx.violation("valid-data-bad-result", "valid data gave %r" % (ll,), desc)
                    elif isinstance(data, (list, dict)):
                        # the SAME container edited in place into an invalid one and passed again to the same sampler: the
                        # second call must validate what it is given now, not what it saw before
                        edits = ["append"] + (["drop"] if nsrc > 1 else []) + ["covariance"]
                        edit = edits[int(rng.integers(0, len(edits)))]
                        extra_src = mk(4, t0=55000 + 100 * nsrc)
                        if isinstance(data, list):
                            if edit == "append":
                                data.append(extra_src)
                            elif edit == "drop":
                                data.pop()
                            else:
                                data[-1] = mk(4, cov=True, t0=55000 + 100 * (nsrc - 1))
                        else:
                            lastk = list(data.keys())[-1]
                            if edit == "append":
                                data["zz_new"] = extra_src
                            elif edit == "drop":
                                del data[lastk]
                            else:
                                data[lastk] = mk(4, cov=True, t0=55000 + 100 * (nsrc - 1))
                        ctx.evaluations += 1
                        ctx.distinct.add(repr(("sources-edited-in-place", form, edit, noff)))
                        try:
                            joker.marginal_ln_likelihood(data, samples, in_memory=True)
                            ctx.violation("source-offset-mismatch-accepted", "a valid %s of %d source(s) was edited in place (%s) into an "
                                          "invalid one and accepted by the same sampler on the second call" % (form, nsrc, edit),
                                          dict(desc, edit=edit))
                        except Exception:
                            pass
                except Exception as e:
                    if valid:
                        ctx.exception(e, "valid data refused", desc, key="valid-data-refused")
        if noff >= 1:
            good = [mk(4, t0=55000 + 100 * k) for k in range(noff + 1)]
            bads = {"tuple": (np.arange(4.0) + 55000, np.ones(4), np.ones(4)), "table": Table({"t": [1.0], "rv": [1.0]}),
                    "none": None, "covariance": mk(4, cov=True), "array": np.ones(4), "samples": samples}
            for name, b in bads.items():
                data = list(good)
                data[int(rng.integers(0, len(data)))] = b
                ctx.evaluations += 1
                ctx.distinct.add(repr(("source-form", name, noff)))
                try:
                    joker.marginal_ln_likelihood(data, samples, in_memory=True)
                    ctx.violation("unsupported-source-accepted", "a %s among the data sources was accepted" % name,
                                  dict(bad_source=name, n_offsets=noff))
                except Exception:
                    pass
    anyprior = next(p for p in priors.values() if p is not None)

    class NoClose:
        def map(self, f, x):
            return map(f, x)

    for name, kw in [("pool-without-map", dict(pool=object())), ("pool-without-close", dict(pool=NoClose())),
                     ("rng-int", dict(rng=42)), ("rng-RandomState", dict(rng=np.random.RandomState(1))),
                     ("rng-module", dict(rng=np.random)), ("prior-dict", dict(prior={})), ("prior-None", dict(prior=None)),
                     ("prior-samples", dict(prior=samples))]:
        ctx.evaluations += 1
        ctx.distinct.add(repr(("thejoker-arg", name)))
        try:
            k2 = dict(kw)
            pr = k2.pop("prior", anyprior)
            TheJoker(pr, **k2)
            ctx.violation("invalid-thejoker-argument-accepted", "TheJoker accepted %s" % name, dict(argument=name))
        except Exception:
            pass
    for name, kw in [("serial-pool", dict(pool=schwimmbad.SerialPool())), ("generator", dict(rng=np.random.default_rng(3)))]:
        ctx.evaluations += 1
        try:
            TheJoker(anyprior, **kw)
        except Exception as e:
            ctx.exception(e, "valid TheJoker argument refused", dict(argument=name), key="valid-argument-refused")
    ctx.sample(dict(grid=grids, example_par_names=list(anyprior.par_names)))
