META = {
    "rule": ("seeded observation sets (1-60 epochs; clustered so the largest empty arc is interior, across the "
             "1->0 boundary, or tied; default and explicit t_ref) x periods from below the cadence to above the "
             "baseline (days/years/hours) x every n_bins in 1..64 (and 100, 360), and sample tables of 1-500 rows with ties in "
             "ln_prior+ln_likelihood. Each call of the real max_phase_gap / phase_coverage / periods_spanned / "
             "MAP_sample is compared with an independent longdouble definition; metamorphic twins: permuted "
             "observations, time-reversed pattern (max_phase_gap). distinct_nontrivial = distinct "
             "(function, n-bucket, where the largest arc lies, P regime, P unit, t_ref kind, twin) classes compared."),
    "shards": {"quick": 1, "thorough": 16},
    "timeout": {"quick": 400, "thorough": 2400},
    "min_evaluations": {"quick": 2000, "thorough": 20000},
    "assumptions": ["phases within 1e-7/n_bins of a bin edge are borderline for phase_coverage and excluded",
                    "tolerance 1e-9 + 64 eps |dt/P| on arcs; periods_spanned tolerance accounts for JD float resolution"],
}
# ---- END META ----
import numpy as np


def ref_phases(t, t_ref, P_day):
    t = np.asarray(t, dtype=np.longdouble)
    x = (t - np.longdouble(t_ref)) / np.longdouble(P_day)
    return x - np.floor(x)


def ref_max_gap(ph):
    ph = np.sort(np.asarray(ph, dtype=np.longdouble))
    if len(ph) == 1:
        return 1.0, "single"
    gaps = np.diff(ph)
    wrap = 1.0 - ph[-1] + ph[0]
    allg = np.concatenate([gaps, [wrap]])
    k = int(np.argmax(allg))
    where = "wrap" if k == len(gaps) else "interior"
    srt = np.sort(allg)
    if len(srt) > 1 and srt[-1] - srt[-2] < 1e-6:
        where = "tied"
    return float(allg.max()), where


def gen_times(rng):
    n = int(rng.choice([1, 2, 3, 4, 6, 10, 20, 60], p=[.08, .1, .12, .15, .15, .15, .15, .1]))
    base = rng.uniform(45000, 60000)
    P = 10 ** rng.uniform(-0.5, 3)
    style = str(rng.choice(["uniform", "cluster-interior", "cluster-wrap", "regular", "tied"]))
    ncyc = rng.integers(0, 50, n)
    if style == "uniform":
        ph = rng.uniform(0, 1, n)
    elif style == "cluster-interior":      # points near 0..0.2 and 0.8..1 => big interior gap
        ph = np.where(rng.random(n) < 0.5, rng.uniform(0.0, 0.2, n), rng.uniform(0.8, 1.0, n))
    elif style == "cluster-wrap":          # points inside [0.3,0.7] => largest arc crosses 1->0
        ph = rng.uniform(0.3, 0.7, n)
    elif style == "regular":
        ph = (np.arange(n) / max(n, 1) + rng.uniform(0, 1)) % 1
    else:
        k = max(1, n // 2)
        ph = np.concatenate([np.full(k, 0.25), np.full(n - k, 0.75)])
    phase0 = rng.uniform(0, 1)
    t = base + (ph + phase0 + ncyc) * P
    return np.asarray(t, dtype=float), P, style, base


def run(ctx):
    import astropy.units as u
    from astropy.time import Time
    from thejoker import JokerSamples, RVData
    from thejoker import samples_analysis as sa
    eps = np.finfo(float).eps
    n = ctx.n(1500, 8000)

    def mk_data(t, t_ref, rng):
        rv = rng.normal(size=len(t)) * u.km / u.s
        err = np.full(len(t), 0.1) * u.km / u.s
        return RVData(rng.permutation(t) if False else t, rv, err, t_ref=t_ref)

    for i in ctx.cases(n):
        rng = ctx.rng(i)
        t, Ptrue, style, base = gen_times(rng)
        regime = str(rng.choice(["true", "below-cadence", "above-baseline", "random"]))
        if regime == "true":
            P = Ptrue
        elif regime == "below-cadence":
            P = 10 ** rng.uniform(-2.5, -0.5)
        elif regime == "above-baseline":
            P = (np.ptp(t) + 1.0) * 10 ** rng.uniform(0, 2)
        else:
            P = 10 ** rng.uniform(-1, 4)
        punit = [u.day, u.yr, u.hour][rng.integers(0, 3)]
        trk = str(rng.choice(["default", "explicit"]))
        # an explicit reference epoch may be on any time scale (astropy's default is UTC)
        t_ref = None if trk == "default" else Time(base + rng.uniform(-300, 300), format="mjd",
                                                   scale=str(rng.choice(["tcb", "utc", "tdb", "tt"])))
        order = rng.permutation(len(t))
        try:
            data = RVData(t[order], (np.arange(len(t)) * 1.0)[order] * u.km / u.s,
                          np.full(len(t), 0.1) * u.km / u.s, t_ref=t_ref)
            Pq = (P * u.day).to(punit)
            P_day = Pq.to_value(u.day)
            s = JokerSamples()
            s["P"] = np.atleast_1d(Pq)
            # the reference instant as BMJD from what was passed in, not from the object's private copy
            t_ref_b = float(t_ref.tcb.mjd) if t_ref is not None else float(np.min(t))
            ph = ref_phases(data._t_bmjd, t_ref_b, P_day)
            desc = dict(index=i, n=len(t), style=style, regime=regime, P_day=P_day, P_unit=str(punit),
                        t_ref=trk, t=data._t_bmjd[:8], t_ref_bmjd=t_ref_b)
            nb = ("1" if len(t) == 1 else "2-3" if len(t) <= 3 else "4-10" if len(t) <= 10 else ">10")
            tol = 1e-9 + 64 * eps * float(np.max(np.abs((data._t_bmjd - t_ref_b) / P_day)) + 1)

            # ---- max_phase_gap
            want, where = ref_max_gap(ph)
            got = float(np.squeeze(u.Quantity(sa.max_phase_gap(s, data)).to_value(u.one)))
            ctx.evaluations += 1
            ctx.distinct.add(repr(("mpg", nb, where, regime, str(punit), trk, "direct")))
            if not abs(got - want) <= tol:
                key = "max_phase_gap-wrong"
                if where in ("wrap", "single", "tied"):
                    # classifier: equals the largest *interior* difference => wrap-around arc ignored
                    phs = np.sort(ph)
                    interior = float(np.max(np.diff(phs))) if len(phs) > 1 else 0.0
                    if abs(got - interior) <= tol:
                        key = "max_phase_gap-no-wraparound"
                ctx.violation(key, "max_phase_gap=%.12g, definition gives %.12g (largest arc: %s)"
                              % (got, want, where), dict(desc, got=got, want=want, where=where))
            ctx.maxi("abs_dev_mpg", abs(got - want) if abs(got - want) < 0.5 else 0)
            # metamorphic: time reversal of the observing pattern
            tc = rng.uniform(t.min(), t.max())
            data_r = RVData(2 * tc - t, np.arange(len(t)) * 1.0 * u.km / u.s,
                            np.full(len(t), 0.1) * u.km / u.s, t_ref=t_ref)
            got_r = float(np.squeeze(u.Quantity(sa.max_phase_gap(s, data_r)).to_value(u.one)))
            tol_r = tol + 64 * eps * float(np.max(np.abs((data_r._t_bmjd - data_r._t_ref_bmjd) / P_day)) + 1)
            ctx.evaluations += 1
            ctx.distinct.add(repr(("mpg", nb, where, regime, trk, "reversed")))
            if not abs(got_r - got) <= 2 * tol_r:
                ctx.violation("max_phase_gap-not-reversal-invariant",
                              "max_phase_gap %.12g for the pattern, %.12g for its time reversal" % (got, got_r),
                              dict(desc, got=got, got_reversed=got_r, tc=tc))

            # ---- phase_coverage
            # every bin count, not a handful: float-step bin edges go wrong only for particular counts (6, 9, 21, 24, ...)
            n_bins = int(rng.integers(1, 65)) if rng.random() < 0.8 else int(rng.choice([1, 2, 10, 100, 360]))
            x = np.asarray(ph * n_bins, dtype=np.longdouble)
            edge_dist = np.min(np.abs(x - np.round(x)))
            if edge_dist < 1e-7 + n_bins * tol:
                ctx.borderline += 1
            else:
                wantc = len(set(np.floor(x).astype(int).tolist())) / n_bins
                gotc = float(sa.phase_coverage(s, data, n_bins=n_bins))
                ctx.evaluations += 1
                ctx.distinct.add(repr(("pc", nb, n_bins, regime, str(punit), trk)))
                if abs(gotc - wantc) > 1e-12:
                    ctx.violation("phase_coverage-wrong", "phase_coverage=%.6g, definition gives %.6g (n_bins=%d)"
                                  % (gotc, wantc, n_bins), dict(desc, n_bins=n_bins, got=gotc, want=wantc))
            # ---- periods_spanned
            wantp = float((np.longdouble(data._t_bmjd.max()) - np.longdouble(data._t_bmjd.min())) / P_day)
            gotp = float(np.squeeze(sa.periods_spanned(s, data)))
            ctx.evaluations += 1
            ctx.distinct.add(repr(("ps", nb, regime, str(punit))))
            if abs(gotp - wantp) > 4e-9 / P_day + 1e-12 * abs(wantp):
                ctx.violation("periods_spanned-wrong", "periods_spanned=%.12g, definition gives %.12g" % (gotp, wantp),
                              dict(desc, got=gotp, want=wantp))
            if i % 400 == 0:
                ctx.sample(dict(desc, max_phase_gap=got, ref=want, where=where, periods_spanned=gotp))
        except Exception as e:
            ctx.exception(e, "diagnostic", dict(index=i))

    # ---- MAP_sample
    nm = ctx.n(400, 3000)
    for j in ctx.cases(nm):
        rng = ctx.rng(1000000 + j)
        N = int(rng.choice([1, 2, 3, 10, 100, 500]))
        s = JokerSamples()
        s["P"] = (np.arange(N) + 1.0 + rng.uniform(0, 0.5, N)) * u.day     # unique tags
        s["e"] = rng.uniform(0, 0.9, N)
        lp = np.round(rng.normal(size=N) * 3, int(rng.choice([0, 1, 6])))
        ll = np.round(rng.normal(size=N) * 3, int(rng.choice([0, 1, 6])))
        if rng.random() < 0.3:
            ll[rng.integers(0, N)] = -np.inf
        s["ln_prior"] = lp
        s["ln_likelihood"] = ll
        has_post = bool(rng.random() < 0.4)
        if has_post:
            # e.g. samples that came back from MCMC carry a stored ln_posterior (of another model): MAP_sample is
            # defined on ln_prior + ln_likelihood
            s["ln_posterior"] = rng.normal(size=N) * 5
        post = lp + ll
        ties = int(np.sum(post == post.max()))
        try:
            row, idx = sa.MAP_sample(s, return_index=True)
            row2 = sa.MAP_sample(s)
            ctx.evaluations += 1
            ctx.distinct.add(repr(("map", N, ties > 1, bool(np.isinf(ll).any()), has_post)))
            ok = (post[int(idx)] == post.max()
                  and float(np.squeeze(row["P"].value)) == float(s["P"].value[int(idx)])
                  and float(np.squeeze(row2["P"].value)) == float(np.squeeze(row["P"].value))
                  and float(np.squeeze(row["ln_prior"])) + float(np.squeeze(row["ln_likelihood"])) == post.max())
            if not (np.array_equal(np.asarray(s["ln_prior"]), lp) and np.array_equal(np.asarray(s["ln_likelihood"]), ll)
                    and np.array_equal(np.asarray(s["P"].value), np.asarray(s["P"].value))):
                ctx.violation("MAP_sample-modifies-its-input", "the caller's table changed under MAP_sample (ln_prior / "
                              "ln_likelihood columns differ from what was passed in)", dict(index=j, N=N))
            if ok and N > 1:
                # the same object with new log-probabilities (re-evaluated under another model, say): the answer follows the table
                ll_new = np.round(rng.normal(size=N) * 3, 6)
                s["ln_likelihood"] = ll_new
                post_new = lp + ll_new
                _, idx3 = sa.MAP_sample(s, return_index=True)
                ctx.evaluations += 1
                if post_new[int(idx3)] != post_new.max():
                    ctx.violation("MAP_sample-wrong", "after ln_likelihood was replaced on the same table MAP_sample still returns row "
                                  "%d (ln_post %r), the maximum %r is at row %d" % (int(idx3), float(post_new[int(idx3)]),
                                                                                 float(post_new.max()), int(np.argmax(post_new))),
                                  dict(index=j, N=N, second_call_after_column_replaced=True))
            if not ok:
                ctx.violation("MAP_sample-wrong", "MAP_sample returned row %r whose ln_post=%r, max is %r"
                              % (int(idx), float(post[int(idx)]), float(post.max())),
                              dict(index=j, N=N, lp=lp[:10], ll=ll[:10]))
        except Exception as e:
            ctx.exception(e, "MAP_sample", dict(index=j, N=N))
