#!/venv/bin/python
"""Port an in-line .pyx edit (no line inserted/removed) to Cython-generated C, mechanically.

usage: port_edit.py old.pyx new.pyx old.c out.c  RULE [RULE...]
RULE = 'FROM=>TO'  textual replacement applied to the generated statements of every changed .pyx line.

1. every '/* "...pyx":N ... */' source-context comment is rewritten from new.pyx (so the sync check
   in tjverif.build keeps meaning "C corresponds to this .pyx");
2. in the C statements that follow a comment block whose marked line N is a changed line, the RULE
   replacements are applied; the number of C lines touched is printed.
"""
import re
import sys

old_pyx, new_pyx, old_c, out_c = sys.argv[1:5]
rules = [r.split("=>") for r in sys.argv[5:]]
op = open(old_pyx).read().split("\n")
np_ = open(new_pyx).read().split("\n")
assert len(op) == len(np_), "only in-line edits are supported"
changed = {i + 1 for i, (a, b) in enumerate(zip(op, np_)) if a != b}
print("changed pyx lines:", sorted(changed))
c = open(old_c).read()
blk = re.compile(r'(/\* "thejoker/src/fast_likelihood\.pyx":(\d+)\n)(.*?)(\*/)', re.S)
out = []
pos = 0
touched = 0
matches = list(blk.finditer(c))
for k, m in enumerate(matches):
    out.append(c[pos:m.start()])
    lineno = int(m.group(2))
    body = m.group(3).split("\n")
    # locate marked line index within body
    lines = [ln for ln in body]
    mk = None
    ctx_idx = []
    for j, ln in enumerate(lines):
        if ln.startswith(" *"):
            ctx_idx.append(j)
            if ln.rstrip().endswith("# <<<<<<<<<<<<<<"):
                mk = len(ctx_idx) - 1
    first = lineno - mk
    for q, j in enumerate(ctx_idx):
        src_no = first + q
        src = np_[src_no - 1] if 1 <= src_no <= len(np_) else ""
        src = src.encode("ascii", "ignore").decode()
        txt = " * " + src if src.strip() else " * "
        if q == mk:
            txt = txt + "             # <<<<<<<<<<<<<<"
        lines[j] = txt
    out.append(m.group(1) + "\n".join(lines) + m.group(4))
    pos = m.end()
    # code region until next block
    end = matches[k + 1].start() if k + 1 < len(matches) else len(c)
    region = c[pos:end]
    if lineno in changed:
        new_region = region
        for a, b in rules:
            new_region = new_region.replace(a, b)
        touched += sum(1 for x, y in zip(region.split("\n"), new_region.split("\n")) if x != y)
        region = new_region
    out.append(region)
    pos = end
out.append(c[pos:])
open(out_c, "w").write("".join(out))
print("C lines touched in statements:", touched)
