"""Stage /repo's working tree outside the repository and (re)build the Cython
kernel for it.  See DESIGN.md section 2.2.

The stage is a directory that is put first on PYTHONPATH so that ``import
thejoker`` resolves to a copy of the *current working tree* with a kernel
compiled for it, never to whatever happens to be installed.

Kernel source resolution (first that applies):
  1. Cython importable      -> cythonize the staged .pyx
  2. repo's generated C in sync with the .pyx
  3. /verif/kernel pristine C (+ patches) in sync with the .pyx
  4. the prebuilt .so lying in the working tree (plain variant only; flagged)
"""
import hashlib
import lzma
import os
import re
import shutil
import subprocess
import sys
import sysconfig
import tempfile
import time

VERIF = os.path.dirname(os.path.dirname(os.path.dirname(os.path.abspath(__file__))))
SCRATCH = os.environ.get("TJVERIF_SCRATCH", "/var/tmp/tjverif")
CACHE = os.path.join(SCRATCH, "cache")
PY = "/venv/bin/python"
EXT = ".cpython-312-x86_64-linux-gnu.so"

_BLOCK_RE = re.compile(
    r'/\* "thejoker/src/fast_likelihood\.pyx":(\d+)\n(.*?)\*/', re.S)


class KernelUnbuildable(Exception):
    pass


def pyx_c_sync(pyx_text, c_text):
    """Compare every source-context comment block Cython left in the generated
    C with the .pyx text.  Returns (n_blocks, mismatches[list of (line, why)])."""
    pyx_lines = pyx_text.split("\n")
    mism = []
    nblocks = 0
    for m in _BLOCK_RE.finditer(c_text):
        nblocks += 1
        lineno = int(m.group(1))
        body = m.group(2).split("\n")
        ctx = []
        marked = None
        for ln in body:
            if ln.startswith(" * "):
                s = ln[3:]
            elif ln.startswith(" *"):
                s = ln[2:]
            else:
                continue
            if s.rstrip().endswith("# <<<<<<<<<<<<<<"):
                s = s.rstrip()[: -len("# <<<<<<<<<<<<<<")].rstrip()
                marked = len(ctx)
            ctx.append(s)
        if marked is None:
            mism.append((lineno, "no marked line"))
            continue
        # the marked line is pyx line `lineno` (1-based)
        first = lineno - marked
        for k, s in enumerate(ctx):
            idx = first + k - 1
            src = pyx_lines[idx] if 0 <= idx < len(pyx_lines) else ""
            # Cython escapes "*/" sequences etc; compare loosely on rstrip
            src = src.encode("ascii", "ignore").decode()   # Cython drops non-ASCII
            s = s.encode("ascii", "ignore").decode()
            if src.rstrip() != s.rstrip():
                mism.append((first + k, "pyx=%r c=%r" % (src.rstrip(), s.rstrip())))
                break
    return nblocks, mism


def _sha(*chunks):
    h = hashlib.sha256()
    for c in chunks:
        if isinstance(c, str):
            c = c.encode()
        h.update(c)
        h.update(b"\0")
    return h.hexdigest()[:24]


def _twobody_dir():
    out = subprocess.run([PY, "-c", "import twobody,os;print(os.path.dirname(twobody.__file__))"],
                         capture_output=True, text=True, check=True)
    return out.stdout.strip().splitlines()[-1]


def _numpy_inc():
    out = subprocess.run([PY, "-c", "import numpy;print(numpy.get_include())"],
                         capture_output=True, text=True, check=True)
    return out.stdout.strip().splitlines()[-1]


def _py_inc():
    out = subprocess.run([PY, "-c", "import sysconfig;print(sysconfig.get_paths()['include'])"],
                         capture_output=True, text=True, check=True)
    return out.stdout.strip().splitlines()[-1]


VARIANT_FLAGS = {
    "plain": ["-fno-strict-overflow", "-DNDEBUG", "-g0", "-O3", "--std=gnu99"],
    "asan": ["-fno-strict-overflow", "-g", "-O1", "--std=gnu99", "-fno-omit-frame-pointer",
             "-fsanitize=address,undefined", "-fno-sanitize-recover=undefined"],
    "cov": ["-fno-strict-overflow", "-g", "-O0", "--std=gnu99", "--coverage"],
}


def _have_cython():
    r = subprocess.run([PY, "-c", "import Cython"], capture_output=True)
    return r.returncode == 0


def resolve_kernel_c(repo):
    """Return (c_text or None, route, info).  None => only prebuilt .so route."""
    src = os.path.join(repo, "thejoker", "src")
    pyx_path = os.path.join(src, "fast_likelihood.pyx")
    with open(pyx_path) as f:
        pyx = f.read()
    info = {}
    if _have_cython():
        tmp = tempfile.mkdtemp(dir=SCRATCH)
        try:
            os.makedirs(os.path.join(tmp, "thejoker", "src"))
            shutil.copy(pyx_path, os.path.join(tmp, "thejoker", "src", "fast_likelihood.pyx"))
            r = subprocess.run([PY, "-m", "cython", "-3", "-I", _twobody_dir(),
                                "thejoker/src/fast_likelihood.pyx"], cwd=tmp,
                               capture_output=True, text=True)
            if r.returncode == 0:
                with open(os.path.join(tmp, "thejoker", "src", "fast_likelihood.c")) as f:
                    return f.read(), "cython", info
            info["cython_error"] = r.stderr[-2000:]
        finally:
            shutil.rmtree(tmp, ignore_errors=True)
    c_path = os.path.join(src, "fast_likelihood.c")
    if os.path.exists(c_path):
        with open(c_path) as f:
            c = f.read()
        n, mism = pyx_c_sync(pyx, c)
        info["repo_c_blocks"] = n
        info["repo_c_mismatches"] = len(mism)
        if n > 100 and not mism:
            return c, "repo-c-in-sync", info
        info["repo_c_first_mismatch"] = mism[:3]
    # pristine C + patches from /verif/kernel
    xz = os.path.join(VERIF, "kernel", "fast_likelihood.c.xz")
    if os.path.exists(xz):
        with lzma.open(xz, "rt") as f:
            c0 = f.read()
        pdir = os.path.join(VERIF, "kernel", "patches")
        patches = sorted(os.listdir(pdir)) if os.path.isdir(pdir) else []
        # try: all patches applied (the fixed tree), then none (the pinned tree)
        for label, plist in (("verif-c+patches", patches), ("verif-c-pristine", [])):
            tmp = tempfile.mkdtemp(dir=SCRATCH)
            try:
                cp = os.path.join(tmp, "fast_likelihood.c")
                with open(cp, "w") as f:
                    f.write(c0)
                ok = True
                for p in plist:
                    r = subprocess.run(["patch", "-s", "-p0", cp, os.path.join(pdir, p)],
                                       capture_output=True, text=True, cwd=tmp)
                    if r.returncode != 0:
                        ok = False
                        info["patch_error"] = (p, r.stdout[-500:] + r.stderr[-500:])
                        break
                if not ok:
                    continue
                with open(cp) as f:
                    c = f.read()
                n, mism = pyx_c_sync(pyx, c)
                if n > 100 and not mism:
                    return c, label, info
                info[label + "_mismatches"] = len(mism)
            finally:
                shutil.rmtree(tmp, ignore_errors=True)
    return None, "prebuilt-so", info


def build_kernel(repo, variant="plain"):
    """Return (path to cached .so, route, info)."""
    os.makedirs(CACHE, exist_ok=True)
    c_text, route, info = resolve_kernel_c(repo)
    if c_text is None:
        so = os.path.join(repo, "thejoker", "src", "fast_likelihood" + EXT)
        if variant != "plain" or not os.path.exists(so):
            raise KernelUnbuildable(
                "kernel .pyx has no matching generated C and Cython is absent; "
                "variant %s cannot be built (%s)" % (variant, info))
        info["warning"] = ("kernel .pyx is NOT in sync with any available generated C; "
                           "using the prebuilt .so found in the working tree")
        return so, route, info
    tb = _twobody_dir()
    with open(os.path.join(tb, "src", "twobody.c"), "rb") as f:
        tbc = f.read()
    flags = VARIANT_FLAGS[variant]
    key = _sha(c_text, tbc, " ".join(flags), sys.version)
    out = os.path.join(CACHE, "fl-%s-%s%s" % (variant, key, EXT))
    if os.path.exists(out):
        return out, route, info
    tmp = tempfile.mkdtemp(dir=SCRATCH)
    try:
        cp = os.path.join(tmp, "fast_likelihood.c")
        with open(cp, "w") as f:
            f.write(c_text)
        cmd = (["gcc", "-shared", "-fPIC"] + flags +
               ["-I", _py_inc(), "-I", _numpy_inc(), "-I", tb,
                cp, os.path.join(tb, "src", "twobody.c"), "-o", out + ".tmp%d" % os.getpid(), "-lm"])
        t0 = time.time()
        r = subprocess.run(cmd, capture_output=True, text=True, cwd=tmp)
        info["compile_s"] = round(time.time() - t0, 1)
        if r.returncode != 0:
            raise KernelUnbuildable("gcc failed: " + r.stderr[-3000:])
        os.replace(out + ".tmp%d" % os.getpid(), out)
        if variant == "cov":
            # keep the .gcno next to the .so for gcov
            for fn in os.listdir(tmp):
                if fn.endswith(".gcno"):
                    shutil.copy(os.path.join(tmp, fn), out + "." + fn)
    finally:
        shutil.rmtree(tmp, ignore_errors=True)
    return out, route, info


def stage(repo, variant="plain", dest=None):
    """Copy the working tree's python package into a fresh stage dir, with a
    kernel built for it.  Returns (stage_root, info)."""
    os.makedirs(SCRATCH, exist_ok=True)
    so, route, info = build_kernel(repo, variant)
    if dest is None:
        dest = tempfile.mkdtemp(prefix="stage-", dir=SCRATCH)
    pkg_src = os.path.join(repo, "thejoker")
    pkg_dst = os.path.join(dest, "thejoker")

    def ignore(d, names):
        return [n for n in names
                if n == "__pycache__" or n.endswith((".so", ".c", ".o", ".pyc"))]

    shutil.copytree(pkg_src, pkg_dst, ignore=ignore)
    shutil.copy(so, os.path.join(pkg_dst, "src", "fast_likelihood" + EXT))
    info = dict(info)
    info["kernel_route"] = route
    info["kernel_variant"] = variant
    info["kernel_so"] = os.path.basename(so)
    # fingerprint of the staged python sources (goes into the evidence)
    h = hashlib.sha256()
    for root, _, files in sorted(os.walk(pkg_dst)):
        for fn in sorted(files):
            if fn.endswith((".py", ".pyx")):
                with open(os.path.join(root, fn), "rb") as f:
                    h.update(fn.encode() + b"\0" + f.read())
    info["tree_sha"] = h.hexdigest()[:16]
    return dest, info


def asan_env():
    lib = subprocess.run(["gcc", "-print-file-name=libasan.so"], capture_output=True,
                         text=True).stdout.strip()
    return {"LD_PRELOAD": lib,
            "ASAN_OPTIONS": "detect_leaks=0:halt_on_error=1:abort_on_error=0",
            "UBSAN_OPTIONS": "print_stacktrace=1:halt_on_error=1"}


if __name__ == "__main__":
    repo = sys.argv[1] if len(sys.argv) > 1 else "/repo"
    variant = sys.argv[2] if len(sys.argv) > 2 else "plain"
    t0 = time.time()
    d, info = stage(repo, variant)
    print(d, info, round(time.time() - t0, 1))
