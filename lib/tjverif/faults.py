"""Fault enumeration for C13: sys.monitoring PY_START failpoints on thejoker's own code objects plus
wrappers on the external boundaries (h5py.File, tables.open_file, NamedTemporaryFile, pool.map)."""
import os
import sys

TOOL = 4
WORKERS = ("marginal_ln_likelihood_worker", "make_full_samples_worker")


class InjectedFault(Exception):
    pass


class InjectedBaseFault(BaseException):
    pass


class InjectedOSFault(OSError):
    """An OSError-family failure (disk full, broken pipe, permission...), the kind I/O layers really raise."""
    pass


class InjectedValueFault(ValueError):
    """The exception type numerical code raises most (shape / value problems): handlers written for an *expected*
    ValueError must not swallow an unexpected one."""
    pass


class State:
    root = None            # directory of the staged thejoker package
    mode = "off"           # off | record | inject
    counts = {}
    order = []             # first-seen order of keys
    target = None          # (key, k)  k = invocation number, or ("task", start_idx) for worker functions
    fired = 0
    exc = InjectedFault
    main_pid = None


def _key(code):
    return "%s:%s" % (os.path.basename(code.co_filename), code.co_qualname)


def _on_start(code, offset):
    st = State
    if st.root is None or not code.co_filename.startswith(st.root):
        return sys.monitoring.DISABLE
    if st.mode == "off":
        return None
    key = _key(code)
    if st.mode == "record":
        n = st.counts.get(key, 0) + 1
        st.counts[key] = n
        if n == 1:
            st.order.append(key)
        if code.co_name in WORKERS:
            try:
                task = sys._getframe(1).f_locals.get("task")
                st.counts.setdefault("tasks:" + key, [])
                st.counts["tasks:" + key].append(int(task[1]))
            except Exception:
                pass
        return None
    tgt = st.target
    if tgt is None or tgt[0] != key:
        return None
    if os.getpid() != st.main_pid and not isinstance(tgt[1], tuple):
        return None        # in pool workers only task-keyed targets fire (per-process counters are not deterministic)
    if isinstance(tgt[1], tuple):          # worker keyed on the task's start index (deterministic across processes)
        try:
            task = sys._getframe(1).f_locals.get("task")
            if int(task[1]) != tgt[1][1]:
                return None
        except Exception:
            return None
        st.fired += 1
        raise st.exc("injected at %s task-start=%d" % (key, tgt[1][1]))
    n = st.counts.get(key, 0) + 1
    st.counts[key] = n
    if n == tgt[1]:
        st.fired += 1
        raise st.exc("injected at %s call #%d" % (key, n))
    return None


def install(root):
    State.root = root
    State.main_pid = os.getpid()
    try:
        sys.monitoring.use_tool_id(TOOL, "tjverif-faults")
    except ValueError:
        pass
    sys.monitoring.register_callback(TOOL, sys.monitoring.events.PY_START, _on_start)
    sys.monitoring.set_events(TOOL, sys.monitoring.events.PY_START)


def record():
    State.mode, State.counts, State.order, State.target, State.fired = "record", {}, [], None, 0
    sys.monitoring.restart_events()


def inject(key, k, base=False, oserr=False, value=False):
    State.mode, State.counts, State.target, State.fired = "inject", {}, (key, k), 0
    State.exc = InjectedBaseFault if base else InjectedOSFault if oserr else InjectedValueFault if value else InjectedFault
    sys.monitoring.restart_events()


def off():
    State.mode, State.target = "off", None


# ---------------------------------------------------------------- external boundaries
class Boundary:
    counts = {}
    target = None      # (name, k)
    fired = 0
    recording = False
    installed = False
    oserr = False

    @classmethod
    def hit(cls, name):
        n = cls.counts.get(name, 0) + 1
        cls.counts[name] = n
        if cls.target is not None and cls.target[0] == name and cls.target[1] == n:
            cls.fired += 1
            raise (InjectedOSFault if cls.oserr else InjectedFault)("injected at boundary %s call #%d" % (name, n))

    @classmethod
    def install(cls):
        if cls.installed:
            return
        import h5py
        import tables
        import thejoker.utils as ut
        real_file = h5py.File

        class File(real_file):
            def __init__(self, *a, **k):
                Boundary.hit("h5py.File")
                super().__init__(*a, **k)
        File.__name__ = "File"
        h5py.File = File
        real_open = tables.open_file

        def open_file(*a, **k):
            Boundary.hit("tables.open_file")
            return real_open(*a, **k)
        tables.open_file = open_file
        real_ntf = ut.NamedTemporaryFile

        def NamedTemporaryFile(*a, **k):
            Boundary.hit("NamedTemporaryFile")
            return real_ntf(*a, **k)
        ut.NamedTemporaryFile = NamedTemporaryFile
        cls.installed = True

    @classmethod
    def reset(cls, target=None, oserr=False):
        cls.counts, cls.target, cls.fired, cls.oserr = {}, target, 0, oserr


class FaultyPool:
    """Wraps a schwimmbad pool; pool.map is a fault point."""

    def __init__(self, pool):
        self._pool = pool
        self.size = getattr(pool, "size", 0)

    def map(self, func, tasks, **kw):
        Boundary.hit("pool.map")
        return self._pool.map(func, tasks, **kw)

    def close(self):
        return self._pool.close()


def fault_is_what_was_raised(exc):
    """The injected fault itself reaches the caller (possibly wrapped by an explicit `raise X from fault`, or re-created
    by the pool's transport with its text). An exception that merely has the fault as implicit __context__ was raised
    *while handling it* (e.g. by a failing clean-up step) and masks it."""
    seen = set()
    e = exc
    while e is not None and id(e) not in seen:
        seen.add(id(e))
        if isinstance(e, (InjectedFault, InjectedBaseFault, InjectedOSFault, InjectedValueFault)) or "injected at" in str(e):
            return True
        e = e.__cause__
    return False


def chain_has_fault(exc):
    seen = set()
    stack = [exc]
    while stack:
        e = stack.pop()
        if e is None or id(e) in seen:
            continue
        seen.add(id(e))
        if isinstance(e, (InjectedFault, InjectedBaseFault, InjectedOSFault, InjectedValueFault)) or "injected at" in str(e):
            return True
        stack.append(e.__cause__)
        stack.append(e.__context__)
    return False
