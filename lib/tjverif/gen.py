"""Seeded generators.  A *spec* is a plain dict (JSON-able) that is the generator's own
record of the problem; thejoker objects are built from it, and the oracle's Linear problem is
built from it independently (never from values read back from thejoker objects)."""
import numpy as np

from . import oracle

VEL_UNITS = ["km/s", "m/s", "cm/s", "pc/Myr"]


def U(name):
    import astropy.units as u
    return u.Unit(name)


def conv(value, frm, to):
    """value [frm] -> [to] as float (astropy only as a unit table)."""
    return float((value * U(frm)).to_value(U(to)))


# ------------------------------------------------------------------ data
def gen_data_spec(rng, n_surveys=1, unit=None, n_epochs=None, layout=None, t_ref_kind=None, err_scale=None,
                  signal=None):
    unit = unit or str(rng.choice(VEL_UNITS, p=[.55, .25, .1, .1]))
    base = float(np.round(rng.uniform(40000, 60000), 4))
    span = float(10 ** rng.uniform(-1, 3.5))
    if n_epochs is None:
        n_epochs = int(rng.choice([1, 2, 3, 4, 6, 9, 14, 25, 40], p=[.1, .1, .12, .14, .16, .14, .12, .07, .05]))
    ntot = max(n_epochs, n_surveys)
    kms = 1.0 / conv(1.0, unit, "km/s")          # 1 km/s in `unit`
    if err_scale is None:
        err_scale = float(10 ** (rng.uniform(-2, 1) if rng.random() < 0.7 else rng.uniform(-3, 3)))   # in km/s
    # an orbit-like signal so the likelihood surface is non-trivial
    if signal is None:
        signal = dict(P=float(10 ** rng.uniform(0, 3)), K=float(10 ** rng.uniform(-1, 2)),
                      v0=float(rng.normal() * 30), phase=float(rng.uniform(0, 6.28)))
    t = np.sort(base + rng.uniform(0, span, ntot))
    if ntot > 2 and rng.random() < 0.15:
        t[1] = t[0]                                             # identical epochs
    layout = layout or str(rng.choice(["interleaved", "disjoint", "disjoint-reversed", "alternating"]))
    if n_surveys == 1:
        owner = np.zeros(ntot, dtype=int)
    elif layout == "interleaved":
        owner = rng.integers(0, n_surveys, ntot)
        owner[rng.permutation(ntot)[:n_surveys]] = np.arange(n_surveys)
    elif layout == "alternating":
        owner = np.arange(ntot) % n_surveys
    else:
        cuts = np.sort(rng.choice(np.arange(1, ntot), size=n_surveys - 1, replace=False)) if ntot > n_surveys \
            else np.arange(1, n_surveys)
        owner = np.zeros(ntot, dtype=int)
        for c in cuts:
            owner[c:] += 1
        if layout == "disjoint-reversed":
            owner = (n_surveys - 1) - owner
    offsets_true = np.concatenate([[0.0], rng.normal(size=max(0, n_surveys - 1)) * 20])
    surveys = []
    tag = 0
    for k in range(n_surveys):
        m = owner == k
        tk = t[m]
        sig = err_scale * 10 ** rng.uniform(-0.5, 0.5, len(tk))
        rv = (signal["v0"] + offsets_true[k] + signal["K"] * np.cos(2 * np.pi * (tk - base) / signal["P"] + signal["phase"])
              + rng.normal(size=len(tk)) * sig)
        sunit = unit if (k == 0 or rng.random() < 0.7) else str(rng.choice(VEL_UNITS))
        f = conv(1.0, "km/s", sunit)
        # unique velocity tags: perturb at the 1e-7 relative level by position
        rvv = rv * f
        rvv = rvv + (np.arange(len(tk)) + tag + 1) * 1e-9 * (np.abs(rvv) + 1)
        tag += len(tk)
        order = rng.permutation(len(tk)) if rng.random() < 0.5 else np.arange(len(tk))
        # the uncertainties may be declared in another velocity unit than the velocities of the same survey
        eunit = sunit if rng.random() < 0.8 else str(rng.choice(VEL_UNITS))
        fe = conv(1.0, "km/s", eunit)
        surveys.append(dict(unit=sunit, err_unit=eunit, t=[float(x) for x in tk[order]], rv=[float(x) for x in rvv[order]],
                            err=[float(x) for x in (sig * fe)[order]]))
    t_ref_kind = t_ref_kind or ("default" if (n_surveys > 1 or rng.random() < 0.6) else
                                str(rng.choice(["inside", "before", "far", "none"], p=[.45, .35, .08, .12])))
    t_ref = None
    if n_surveys == 1 and t_ref_kind == "none":
        t_ref = 0.0            # RVData(..., t_ref=False): no reference epoch is subtracted, i.e. BMJD 0
    elif n_surveys == 1 and t_ref_kind != "default":
        t_ref = {"inside": float(rng.uniform(t.min(), t.max() + 1e-3)), "before": float(t.min() - rng.uniform(1, 300)),
                 "far": float(t.min() - rng.uniform(3000, 20000))}[t_ref_kind]
    form = "single" if n_surveys == 1 else str(rng.choice(["list", "dict"], p=[.6, .4]))
    keys = None
    if form == "dict":
        pool = [["apogee", "lamost", "weave", "boss"], [3, 1, 2, 0], ["b", "a", "d", "c"], [10, 2, 33, 4]][rng.integers(0, 4)]
        keys = [pool[i] for i in rng.permutation(len(pool))[:n_surveys]]
    # an explicit reference epoch may be given on another time scale than TCB (astropy's default is UTC):
    # `t_ref` below stays the TCB value (what the data's BMJD are compared with), `t_ref_input` is what is passed
    t_ref_scale = "tcb"
    t_ref_input = t_ref
    if t_ref is not None and t_ref_kind != "none":
        t_ref_scale = str(rng.choice(["tcb", "utc", "tdb"], p=[.4, .4, .2]))
        if t_ref_scale != "tcb":
            from astropy.time import Time
            t_ref_input = float(getattr(Time(t_ref, format="mjd", scale="tcb"), t_ref_scale).mjd)
            t_ref = float(Time(t_ref_input, format="mjd", scale=t_ref_scale).tcb.mjd)
    return dict(unit=surveys[0]["unit"], form=form, keys=keys, surveys=surveys, t_ref=t_ref, layout=layout,
                t_ref_kind=t_ref_kind, err_scale_kms=err_scale, signal=signal, base=base,
                t_ref_scale=t_ref_scale, t_ref_input=t_ref_input)


def build_data(dspec):
    import astropy.units as u
    from astropy.time import Time
    from thejoker import RVData
    objs = []
    for s in dspec["surveys"]:
        kw = {}
        if dspec.get("t_ref_kind") == "none" and len(dspec["surveys"]) == 1:
            kw["t_ref"] = False
        elif dspec["t_ref"] is not None and len(dspec["surveys"]) == 1:
            kw["t_ref"] = Time(dspec.get("t_ref_input", dspec["t_ref"]), format="mjd", scale=dspec.get("t_ref_scale", "tcb"))
        # how the caller's arrays are laid out in memory (same numbers): big-endian (FITS columns), read-only, strided views
        ak = dspec.get("array_kind", "plain")

        def arr(x):
            a = np.array(x, dtype=float)
            if ak == "bigendian":
                return a.astype(">f8")
            if ak == "readonly":
                a.setflags(write=False)
                return a
            if ak == "strided":
                b = np.zeros(2 * len(a))
                b[::2] = a
                return b[::2]
            return a
        objs.append(RVData(arr(s["t"]), arr(s["rv"]) * U(s["unit"]), arr(s["err"]) * U(s.get("err_unit", s["unit"])), **kw))
    if dspec["form"] == "single":
        return objs[0]
    if dspec["form"] == "list":
        return objs
    return {k: o for k, o in zip(dspec["keys"], objs)}


def merged(dspec, assignment=None):
    """The correctly labelled union, in the data unit, time-sorted.
    Returns t, y, sig, label (survey number per row), t_ref."""
    du = dspec["unit"]
    t, y, sg, lab = [], [], [], []
    for k, s in enumerate(dspec["surveys"]):
        f = conv(1.0, s["unit"], du)
        fe = conv(1.0, s.get("err_unit", s["unit"]), du)
        t += list(s["t"])
        y += [v * f for v in s["rv"]]
        sg += [v * fe for v in s["err"]]
        lab += [k] * len(s["t"])
    t, y, sg, lab = map(np.array, (t, y, sg, lab))
    o = np.argsort(t, kind="stable")
    t_ref = dspec["t_ref"] if (dspec["t_ref"] is not None and len(dspec["surveys"]) == 1) else float(np.min(t))
    return t[o], y[o], sg[o], lab[o], t_ref


# ------------------------------------------------------------------ prior
def gen_prior_spec(rng, data_unit, n_offsets=0, poly_trend=None, kkind=None, p_unit=None, means=None,
                   jitter_kind=None):
    poly = int(poly_trend if poly_trend is not None else rng.choice([1, 2, 3, 4], p=[.4, .3, .2, .1]))
    kkind = kkind or str(rng.choice(["default", "default-custom", "normal"], p=[.4, .3, .3]))
    p_unit = p_unit or str(rng.choice(["d", "yr", "h"], p=[.6, .25, .15]))
    means = bool(rng.random() < 0.6) if means is None else means
    vunit = lambda: str(rng.choice(VEL_UNITS, p=[.5, .3, .1, .1]))  # noqa
    lo = 10 ** rng.uniform(-2, 1)
    P_min = conv(lo, "d", p_unit)
    P_max = conv(lo * 10 ** rng.uniform(1, 4), "d", p_unit)
    if kkind == "normal":
        ku = vunit()
        K = dict(kind="normal", unit=ku, mu=float(rng.normal() * 5 * conv(1, "km/s", ku)) if means else 0.0,
                 sigma=float(10 ** rng.uniform(0, 3) * conv(1, "km/s", ku)))
    else:
        ku = vunit()
        K = dict(kind="default", unit=ku, sigma_K0=float(10 ** rng.uniform(0, 2.5) * conv(1, "km/s", ku)),
                 P0=float(10 ** rng.uniform(-0.5, 1.0)) if rng.random() < 0.5 else 1.0,
                 P0_unit=str(rng.choice(["yr", "d", "h"])), mu=0.0, max_K=None, max_K_unit=None, custom=False)
        if K["P0_unit"] != "yr":
            K["P0"] = conv(K["P0"], "yr", K["P0_unit"])
        if kkind == "default-custom":
            K["custom"] = True
            K["mu"] = float(rng.normal() * 5 * conv(1, "km/s", ku)) if means else 0.0
            mu_ = str(rng.choice(VEL_UNITS))
            K["max_K_unit"] = mu_
            K["max_K"] = float(10 ** rng.uniform(0.3, 3) * conv(1, "km/s", mu_))
    v = []
    for i in range(poly):
        vu = vunit()
        v.append(dict(unit=vu, mu=float(rng.normal() * 20 * 10.0 ** (-2 * i) * conv(1, "km/s", vu)) if means else 0.0,
                      sigma=float(10 ** rng.uniform(0, 3) * 10.0 ** (-2 * i) * conv(1, "km/s", vu))))
    off = []
    for k in range(n_offsets):
        ou = vunit()
        off.append(dict(unit=ou, mu=float(rng.normal() * 3 * conv(1, "km/s", ou)) if means else 0.0,
                        sigma=float(10 ** rng.uniform(-0.5, 1.5) * conv(1, "km/s", ou))))
    jitter_kind = jitter_kind or str(rng.choice(["const0", "const", "sampled"], p=[.4, .3, .3]))
    su = vunit()
    s = dict(kind=jitter_kind, unit=su, value=0.0 if jitter_kind == "const0" else float(10 ** rng.uniform(-2, 1) * conv(1, "km/s", su)),
             mu=float(rng.uniform(-2, 1)), sd=float(rng.uniform(0.3, 1.5)))
    custom_lin = means or bool(rng.random() < 0.3)
    sv_form = str(rng.choice(["list", "scalar", "dict"]))
    # priors written with integer literals, pm.Normal("v0", 0, 100): pytensor then carries the parameters as int8/int16
    # constants. The numbers are rounded here, in the spec, so oracle and code see the same prior.
    int_literals = bool(rng.random() < 0.15)
    if int_literals:
        targets = list(off) + (list(v[:1]) if custom_lin else []) + ([K] if K["kind"] == "normal" else [])
        for d_ in targets:
            d_["sigma"] = int(min(max(round(d_["sigma"]), 2), 30000))
            d_["mu"] = int(max(min(round(d_["mu"]), 30000), -30000))
    return dict(int_literals=int_literals, sigma_v_form=sv_form, poly_trend=poly, n_offsets=n_offsets, P_unit=p_unit, P_min=float(P_min), P_max=float(P_max), K=K, v=v,
                offsets=off, s=s, custom_linear=bool(custom_lin))


def build_prior(ps):
    """JokerPrior from a prior spec, through the public constructors."""
    import astropy.units as u
    import pymc as pm
    import thejoker.units as xu
    from thejoker import JokerPrior
    from thejoker.distributions import FixedCompanionMass, Kipping13Global, UniformLog
    K = ps["K"]
    pu = U(ps["P_unit"])
    with pm.Model() as model:
        pars = {}
        v0_offsets = []
        for k, o in enumerate(ps["offsets"]):
            v0_offsets.append(xu.with_unit(pm.Normal("dv0_%d" % (k + 1), o["mu"], o["sigma"]), U(o["unit"])))
        s = ps["s"]
        if s["kind"] == "sampled":
            pars["s"] = xu.with_unit(pm.LogNormal("s", s["mu"], s["sd"]), U(s["unit"]))
            s_arg = None
        else:
            s_arg = s["value"] * U(s["unit"])
        need_PE = K["kind"] == "default" and K.get("custom")
        if need_PE:
            pars["P"] = xu.with_unit(UniformLog("P", ps["P_min"], ps["P_max"]), pu)
            pars["e"] = xu.with_unit(Kipping13Global("e"), u.one)
        if K["kind"] == "normal":
            pars["K"] = xu.with_unit(pm.Normal("K", K["mu"], K["sigma"]), U(K["unit"]))
        elif K.get("custom"):
            pars["K"] = xu.with_unit(
                FixedCompanionMass("K", P=pars["P"], e=pars["e"], sigma_K0=K["sigma_K0"] * U(K["unit"]),
                                   P0=K["P0"] * U(K["P0_unit"]), mu=K["mu"],
                                   max_K=K["max_K"] * U(K["max_K_unit"])), U(K["unit"]))
        if ps["custom_linear"]:
            for i, vv in enumerate(ps["v"]):
                pars["v%d" % i] = xu.with_unit(pm.Normal("v%d" % i, vv["mu"], vv["sigma"]), U(vv["unit"]) / u.day ** i)
            sigma_v = None
        else:
            sigma_v = [vv["sigma"] * U(vv["unit"]) / u.day ** i for i, vv in enumerate(ps["v"])]
            form = ps.get("sigma_v_form", "list")
            if form == "scalar" and len(sigma_v) == 1:
                sigma_v = sigma_v[0]                      # a bare Quantity is allowed for poly_trend=1
            elif form == "dict":
                sigma_v = {"v%d" % i: q for i, q in enumerate(sigma_v)}
        kw = dict(P_min=ps["P_min"] * pu, P_max=ps["P_max"] * pu, sigma_v=sigma_v, s=s_arg,
                  poly_trend=ps["poly_trend"], v0_offsets=v0_offsets or None, pars=pars or None)
        if K["kind"] == "default" and not K.get("custom"):
            kw["sigma_K0"] = K["sigma_K0"] * U(K["unit"])
            kw["P0"] = K["P0"] * U(K["P0_unit"])
        prior = JokerPrior.default(**kw)
    return prior


def prior_linear_in_data_unit(ps, du):
    """mu (L), lam_rest (L-1), kprior for oracle.Linear, in the data unit `du`."""
    K = ps["K"]
    mu = [conv(K["mu"], K["unit"], du)]
    lam = []
    v = ps["v"]
    mu.append(conv(v[0]["mu"], v[0]["unit"], du))
    lam.append(conv(v[0]["sigma"], v[0]["unit"], du) ** 2)
    for o in ps["offsets"]:
        mu.append(conv(o["mu"], o["unit"], du))
        lam.append(conv(o["sigma"], o["unit"], du) ** 2)
    for vv in v[1:]:
        mu.append(conv(vv["mu"], vv["unit"], du))          # per day^i: time unit is day on both sides
        lam.append(conv(vv["sigma"], vv["unit"], du) ** 2)
    if K["kind"] == "normal":
        kp = dict(kind="normal", sigma=conv(K["sigma"], K["unit"], du))
    else:
        mk = conv(500.0, "km/s", du) if K.get("max_K") is None else conv(K["max_K"], K["max_K_unit"], du)
        kp = dict(kind="default", sigma_K0=conv(K["sigma_K0"], K["unit"], du), P0_day=conv(K["P0"], K["P0_unit"], "d"),
                  max_K=mk)
    if not ps["custom_linear"]:
        # JokerPrior.default builds zero-mean trend priors
        pass
    return np.array(mu), np.array(lam), kp


def linear_problem(dspec, ps, assignment=None, concat_labels=False):
    """oracle.Linear for the spec. assignment: tuple mapping survey number -> column (0 = reference,
    k = dv0_k); default: identity (list input convention).
    concat_labels=True emulates a known defect: survey labels left in concatenation order while the
    observations are time-sorted."""
    t, y, sg, lab, t_ref = merged(dspec)
    ns = len(dspec["surveys"])
    if concat_labels is not False and concat_labels is not None:
        lab = np.concatenate([[k] * len(s["t"]) for k, s in enumerate(dspec["surveys"])])
        if concat_labels is not True:
            # an explicit label vector (used to enumerate the orders of tied epochs)
            lab = np.asarray(concat_labels)
    if assignment is None:
        assignment = tuple(range(ns))
    n = len(t)
    cols = [np.ones(n)]
    for k in range(1, ns):
        cols.append(np.array([1.0 if assignment[l] == k else 0.0 for l in lab]))
    dt = t - t_ref
    for i in range(1, ps["poly_trend"]):
        cols.append(dt ** i)
    mu, lam, kp = prior_linear_in_data_unit(ps, dspec["unit"])
    return oracle.Linear(t, y, sg, t_ref, np.column_stack(cols), mu, lam, kp)


# ------------------------------------------------------------------ nonlinear rows
def gen_rows(rng, n, dspec, e_class="valid", s_scale=None):
    """Physical rows: P [day], e, omega [rad], M0 [rad], s [km/s]; unique increasing periods (tags)."""
    base = 10 ** rng.uniform(-2, 5, n)
    sig = dspec.get("signal")
    if sig and n > 3:
        base[rng.integers(0, n)] = sig["P"]                    # one row near the generating orbit
    P = np.sort(base) * (1 + np.arange(n) * 1e-7)
    if e_class == "valid":
        e = rng.uniform(0, 0.99, n)
        e[rng.random(n) < 0.1] = 0.0
        e[rng.random(n) < 0.05] = 0.99
    elif e_class == "extreme":
        e = rng.uniform(0.99, 0.999999, n)
    else:
        e = rng.uniform(0, 0.9, n)
    om = rng.uniform(-2 * np.pi, 4 * np.pi, n)
    M0 = rng.uniform(-2 * np.pi, 4 * np.pi, n)
    es = dspec["err_scale_kms"]
    r = rng.random(n)
    s = np.where(r < 0.35, 0.0, np.where(r < 0.7, es * 10 ** rng.uniform(-1, 0.5, n), es * 10 ** rng.uniform(0.5, 2, n)))
    if s_scale == "zero":
        s = np.zeros(n)
    return dict(P=P, e=e, omega=om, M0=M0, s_kms=s)


def build_samples(rows, units=None, ln_prior=False, t_ref=None, poly_trend=None, n_offsets=None, dtype=None):
    """JokerSamples with the rows expressed in `units` (dict name->unit string); dtype: numpy dtype of the columns
    (prior.sample(dtype=np.float32) produces single-precision libraries)."""
    from thejoker import JokerSamples
    units = dict(units or {})
    if dtype is not None:
        s = build_samples(rows, units=units, ln_prior=ln_prior, t_ref=t_ref, poly_trend=poly_trend, n_offsets=n_offsets)
        out = JokerSamples(t_ref=t_ref, poly_trend=poly_trend, n_offsets=n_offsets)
        for k in s.par_names:
            col = s.tbl[k]
            out[k] = np.asarray(col.value if hasattr(col, "value") else col).astype(dtype) * getattr(col, "unit", 1)
        return out
    s = JokerSamples(t_ref=t_ref, poly_trend=poly_trend, n_offsets=n_offsets)
    s["P"] = np.array([conv(x, "d", units.get("P", "d")) for x in rows["P"]]) * U(units.get("P", "d"))
    s["e"] = np.asarray(rows["e"], dtype=float)
    s["omega"] = np.array([conv(x, "rad", units.get("omega", "rad")) for x in rows["omega"]]) * U(units.get("omega", "rad"))
    s["M0"] = np.array([conv(x, "rad", units.get("M0", "rad")) for x in rows["M0"]]) * U(units.get("M0", "rad"))
    s["s"] = np.array([conv(x, "km/s", units.get("s", "km/s")) for x in rows["s_kms"]]) * U(units.get("s", "km/s"))
    if ln_prior:
        s["ln_prior"] = -(np.arange(len(rows["P"])) + 0.5)
    return s


def tied_label_variants(dspec, limit=24):
    """Label vectors 'concatenation-order labels on time-sorted rows' for every order in which an
    unstable sort may leave tied epochs (the defect emulated by linear_problem(concat_labels=...))."""
    import itertools
    t, y, sg, lab, t_ref = merged(dspec)
    base = np.concatenate([[k] * len(s["t"]) for k, s in enumerate(dspec["surveys"])])
    groups = []
    i = 0
    while i < len(t):
        j = i
        while j + 1 < len(t) and t[j + 1] == t[i]:
            j += 1
        if j > i:
            groups.append(list(range(i, j + 1)))
        i = j + 1
    variants = [base]
    for g in groups:
        new = []
        for v in variants:
            for perm in itertools.permutations(g):
                w = v.copy()
                w[g] = v[list(perm)]
                new.append(w)
        # dedupe
        seen = {}
        for w in new:
            seen[w.tobytes()] = w
        variants = list(seen.values())[:limit]
    return variants
