"""Evaluate the pymc model assembled by TheJoker.setup_mcmc at physical parameter points (used by C08's MCMC slice;
C11 carries its own, fuller version of the same mapping)."""
import math

import numpy as np

from . import gen, oracle


def compile_model_rv(model):
    import pytensor
    outs = model.replace_rvs_by_values([model["model_rv"]])
    f = pytensor.function(model.value_vars, outs, on_unused_input="ignore")
    return f, [v.name for v in model.value_vars]


def value_point(ps, du, n_off, P_d, e_, om, M0, s_du, x):
    """physical point (day, rad, data unit; x in design-matrix order K, v0, dv0_1.., v1..) -> value-space dict in the
    prior's own units (logit e, log s, (sin, cos) angle pairs)."""
    val = {"P": gen.conv(P_d, "d", ps["P_unit"]), "e_logodds__": math.log(e_ / (1 - e_)),
           "__omega_angle1": math.sin(om), "__omega_angle2": math.cos(om),
           "__M0_angle1": math.sin(M0), "__M0_angle2": math.cos(M0)}
    if ps["s"]["kind"] == "sampled":
        val["s_log__"] = math.log(gen.conv(s_du, du, ps["s"]["unit"]))
    val["K"] = gen.conv(x[0], du, ps["K"]["unit"])
    val["v0"] = gen.conv(x[1], du, ps["v"][0]["unit"])
    for k in range(1, n_off + 1):
        val["dv0_%d" % k] = gen.conv(x[1 + k], du, ps["offsets"][k - 1]["unit"])
    for k in range(1, ps["poly_trend"]):
        val["v%d" % k] = gen.conv(x[1 + n_off + k], du, ps["v"][k]["unit"])
    return val


def model_rv_deviation(f, vnames, ps, du, lin, n_off, rng, npts=4):
    """max relative deviation of the model's RV curve from [z | D] x over npts random points, or None if the value
    variables could not all be mapped (inconclusive). Epochs within 1e-4 rad of M = pi get the allowance of the
    exoplanet_core Kepler op (DESIGN 10.19)."""
    worst = 0.0
    for _ in range(npts):
        P_d = float(np.exp(rng.uniform(np.log(gen.conv(ps["P_min"], ps["P_unit"], "d")) + 1e-6,
                                       np.log(gen.conv(ps["P_max"], ps["P_unit"], "d")) - 1e-6)))
        e_ = float(rng.uniform(0.01, 0.9))
        om, M0 = float(rng.uniform(-3.1, 3.1)), float(rng.uniform(-3.1, 3.1))
        s_du = float(10 ** rng.uniform(-2, 0)) * gen.conv(1, "km/s", du)
        x = lin.mu + rng.normal(size=lin.L) * np.sqrt(np.concatenate([[lin.var_K(P_d, e_)], lin.lam_rest])) * 0.7
        val = value_point(ps, du, n_off, P_d, e_, om, M0, s_du, x)
        if [v for v in vnames if v not in val]:
            return None
        model_rv = np.asarray(f(*[np.asarray(val[v], dtype=float) for v in vnames])[0], dtype=float)
        z = np.asarray(oracle.rv_basis(lin.t, P_d, e_, om, M0, lin.t_ref), dtype=float)
        want = np.column_stack([z, lin.D]) @ x
        scale = abs(x[0]) / (1 - e_) ** 2 + np.max(np.abs(want)) + 1e-9
        Mq = 2 * math.pi * (lin.t - lin.t_ref) / P_d - M0
        near_pi = np.abs(np.mod(Mq, 2 * math.pi) - math.pi) < 1e-4
        allow = np.where(near_pi, 3e-5 * abs(x[0]) / (1 - e_) ** 2 / scale, 0.0)
        worst = max(worst, float(np.max(np.maximum(np.abs(model_rv - want) / scale - allow, 0.0))))
    return worst


def compile_model(model, names=("model_rv", "ln_likelihood"), with_logp=False):
    """Compiled [model[n] for n in names] (+ the model's log-density without Jacobians as the last output)."""
    import pytensor
    outs = model.replace_rvs_by_values([model[n] for n in names])
    if with_logp:
        outs = list(outs) + [model.logp(jacobian=False)]
    f = pytensor.function(model.value_vars, outs, on_unused_input="ignore")
    return f, [v.name for v in model.value_vars]


def evaluate(f, vnames, ps, du, n_off, point, x):
    """point = (P_d, e, omega, M0, s_du); x in the data unit `du`, design-matrix order. Returns the compiled outputs or
    None when a value variable could not be mapped."""
    P_d, e_, om, M0, s_du = point
    val = value_point(ps, du, n_off, P_d, e_, om, M0, s_du, x)
    if [v for v in vnames if v not in val]:
        return None
    return [np.asarray(o, dtype=float) for o in f(*[np.asarray(val[v], dtype=float) for v in vnames])]
