"""Contracts and boundary wrappers attached to the *staged* thejoker modules.

Every monitor counts its evaluations in COUNTS and appends firings to FIRED
(never raises into the code under test unless asked to), so one API call can be
watched by several monitors at once and a driver reads the ones it owns.
"""
import functools
import os
import threading

import numpy as np

COUNTS = {}
FIRED = []          # list of dicts {monitor, key, what, case}
_lock = threading.Lock()


def hit(name, k=1):
    COUNTS[name] = COUNTS.get(name, 0) + k


def fire(monitor, key, what, case=None):
    FIRED.append({"monitor": monitor, "key": key, "what": what, "case": case, "pid": os.getpid()})


def drain(monitor=None):
    """Return and clear firings (optionally only those of one monitor)."""
    global FIRED
    if monitor is None:
        out, FIRED = FIRED, []
        return out
    out = [f for f in FIRED if f["monitor"] == monitor]
    FIRED = [f for f in FIRED if f["monitor"] != monitor]
    return out


# --------------------------------------------------------------------------
# C16: batch_tasks partition contract
# --------------------------------------------------------------------------

def check_partition(tasks, n_tasks, n_batches, arr, start_idx, args=None):
    """Return None if `tasks` is a correct partition, else (key, message)."""
    if not isinstance(tasks, list) or len(tasks) == 0:
        return ("no-batches", "no batches returned")
    pos = start_idx
    pieces = []
    for k, t in enumerate(tasks):
        if len(t) < 2:
            return ("malformed-task", "task %d has %d fields" % (k, len(t)))
        body, first = t[0], t[1]
        if arr is None:
            if not (isinstance(body, tuple) and len(body) == 2):
                return ("malformed-task", "task %d body %r" % (k, body))
            i1, i2 = body
            if i1 != pos:
                return ("gap-or-overlap", "task %d starts at %r, expected %r" % (k, i1, pos))
            if i2 <= i1:
                return ("empty-batch", "task %d is empty (%r,%r)" % (k, i1, i2))
            if first != i1:
                return ("wrong-start-index", "task %d carries start %r for range (%r,%r)" % (k, first, i1, i2))
            pos = i2
        else:
            n = len(body)
            if n == 0:
                return ("empty-batch", "task %d is empty" % k)
            if first != pos:
                return ("wrong-start-index", "task %d carries start %r, expected %r" % (k, first, pos))
            pieces.append(np.asarray(body))
            pos += n
    if pos != start_idx + n_tasks:
        return ("wrong-coverage", "batches end at %r, expected %r" % (pos, start_idx + n_tasks))
    if arr is not None:
        want = np.asarray(arr)[start_idx:start_idx + n_tasks]
        got = np.concatenate(pieces)
        if got.shape != want.shape or not np.array_equal(got, want):
            return ("wrong-elements", "concatenated pieces differ from arr[start:start+n]")
    if args is not None:
        for k, t in enumerate(tasks):
            if list(t[2:]) != list(args):
                return ("args-not-carried", "task %d extra fields differ from args" % k)
    return None


def wrap_batch_tasks(orig):
    @functools.wraps(orig)
    def batch_tasks(n_tasks, n_batches, arr=None, args=None, start_idx=0):
        tasks = orig(n_tasks, n_batches, arr=arr, args=args, start_idx=start_idx)
        hit("batch_tasks")
        if n_tasks >= 1 and n_batches >= 1 and start_idx >= 0:
            bad = check_partition(tasks, n_tasks, n_batches, arr, start_idx,
                                  args=list(args) if args is not None else [])
            if bad:
                fire("C16", bad[0], bad[1],
                     {"n_tasks": n_tasks, "n_batches": n_batches, "start_idx": start_idx,
                      "arr": None if arr is None else "len %d" % len(arr)})
        return tasks
    batch_tasks.__wrapped_by_tjverif__ = True
    return batch_tasks


def install_batch_tasks():
    import thejoker.multiproc_helpers as mh
    import thejoker.utils as ut
    if getattr(ut.batch_tasks, "__wrapped_by_tjverif__", False):
        return
    w = wrap_batch_tasks(ut.batch_tasks)
    ut.batch_tasks = w
    mh.batch_tasks = w
