"""Contracts and boundary wrappers attached to the *staged* thejoker modules.

Every monitor counts its evaluations in COUNTS and appends firings to FIRED
(never raises into the code under test unless asked to), so one API call can be
watched by several monitors at once and a driver reads the ones it owns.
"""
import functools
import os
import threading

import numpy as np

COUNTS = {}
FIRED = []          # list of dicts {monitor, key, what, case}
_lock = threading.Lock()


def hit(name, k=1):
    COUNTS[name] = COUNTS.get(name, 0) + k


def fire(monitor, key, what, case=None):
    FIRED.append({"monitor": monitor, "key": key, "what": what, "case": case, "pid": os.getpid()})


def drain(monitor=None):
    """Return and clear firings (optionally only those of one monitor)."""
    global FIRED
    if monitor is None:
        out, FIRED = FIRED, []
        return out
    out = [f for f in FIRED if f["monitor"] == monitor]
    FIRED = [f for f in FIRED if f["monitor"] != monitor]
    return out


# --------------------------------------------------------------------------
# C16: batch_tasks partition contract
# --------------------------------------------------------------------------

def check_partition(tasks, n_tasks, n_batches, arr, start_idx, args=None):
    """Return None if `tasks` is a correct partition, else (key, message)."""
    if not isinstance(tasks, list) or len(tasks) == 0:
        return ("no-batches", "no batches returned")
    pos = start_idx
    pieces = []
    for k, t in enumerate(tasks):
        if len(t) < 2:
            return ("malformed-task", "task %d has %d fields" % (k, len(t)))
        body, first = t[0], t[1]
        if arr is None:
            if not (isinstance(body, tuple) and len(body) == 2):
                return ("malformed-task", "task %d body %r" % (k, body))
            i1, i2 = body
            if i1 != pos:
                return ("gap-or-overlap", "task %d starts at %r, expected %r" % (k, i1, pos))
            if i2 <= i1:
                return ("empty-batch", "task %d is empty (%r,%r)" % (k, i1, i2))
            if first != i1:
                return ("wrong-start-index", "task %d carries start %r for range (%r,%r)" % (k, first, i1, i2))
            pos = i2
        else:
            n = len(body)
            if n == 0:
                return ("empty-batch", "task %d is empty" % k)
            if first != pos:
                return ("wrong-start-index", "task %d carries start %r, expected %r" % (k, first, pos))
            pieces.append(np.asarray(body))
            pos += n
    if pos != start_idx + n_tasks:
        return ("wrong-coverage", "batches end at %r, expected %r" % (pos, start_idx + n_tasks))
    if arr is not None:
        want = np.asarray(arr)[start_idx:start_idx + n_tasks]
        got = np.concatenate(pieces)
        if got.shape != want.shape or not np.array_equal(got, want):
            return ("wrong-elements", "concatenated pieces differ from arr[start:start+n]")
    if args is not None:
        for k, t in enumerate(tasks):
            if list(t[2:]) != list(args):
                return ("args-not-carried", "task %d extra fields differ from args" % k)
    return None


def wrap_batch_tasks(orig):
    @functools.wraps(orig)
    def batch_tasks(n_tasks, n_batches, arr=None, args=None, start_idx=0):
        tasks = orig(n_tasks, n_batches, arr=arr, args=args, start_idx=start_idx)
        hit("batch_tasks")
        if n_tasks >= 1 and n_batches >= 1 and start_idx >= 0:
            bad = check_partition(tasks, n_tasks, n_batches, arr, start_idx,
                                  args=list(args) if args is not None else [])
            if bad:
                fire("C16", bad[0], bad[1],
                     {"n_tasks": n_tasks, "n_batches": n_batches, "start_idx": start_idx,
                      "arr": None if arr is None else "len %d" % len(arr)})
        return tasks
    batch_tasks.__wrapped_by_tjverif__ = True
    return batch_tasks


def install_batch_tasks():
    import thejoker.multiproc_helpers as mh
    import thejoker.utils as ut
    if getattr(ut.batch_tasks, "__wrapped_by_tjverif__", False):
        return
    w = wrap_batch_tasks(ut.batch_tasks)
    ut.batch_tasks = w
    mh.batch_tasks = w


# --------------------------------------------------------------------------
# C15: RVData contracts (icontract, recording conditions that return True)
# --------------------------------------------------------------------------

def _nan_eq(a, b):
    a = np.asarray(a, dtype=float)
    b = np.asarray(b, dtype=float)
    return a.shape == b.shape and bool(np.all((a == b) | (np.isnan(a) & np.isnan(b))))


def rvdata_expected(t, rv, rv_err, t_ref, clean):
    """Independent statement of what an RVData must hold, from the inputs."""
    import astropy.units as u
    from astropy.time import Time
    if isinstance(t, Time):
        tt = np.atleast_1d(np.array(t.tcb.mjd, dtype=float))
    else:
        tt = np.atleast_1d(np.array(t, dtype=float))
    rvq = u.Quantity(np.atleast_1d(rv))
    erq = u.Quantity(np.atleast_1d(rv_err))
    rvv = np.array(rvq.value, dtype=float)
    erv = np.array(erq.value, dtype=float)
    has_cov = erv.ndim == 2
    keep = np.ones(len(rvv), dtype=bool)
    if clean:
        keep &= np.isfinite(tt) & np.isfinite(rvv)
        if has_cov:
            # an observation is finite iff its own time, velocity and variance are finite and so
            # are its covariances with every other such observation
            fc = np.isfinite(erv)
            own = keep & np.diag(fc)
            keep = own & np.array([bool(np.all(fc[i, own]) and np.all(fc[own, i])) for i in range(len(rvv))])
        else:
            keep &= np.isfinite(erv)
    idx = np.where(keep)[0]
    return dict(t=tt, rv=rvv, err=erv, keep_idx=idx, has_cov=has_cov,
                rv_unit=rvq.unit, err_unit=erq.unit)


def check_rvdata_against(d, exp, t_ref, what="init"):
    """Compare a constructed RVData `d` with the expectation. Returns list of (key, msg)."""
    from astropy.time import Time
    bad = []
    idx = exp["keep_idx"]
    n = len(idx)
    st = np.asarray(d._t_bmjd, dtype=float)
    srv = np.asarray(d.rv.value, dtype=float)
    ser = np.asarray(d.rv_err.value, dtype=float)
    if not (len(st) == len(srv) == ser.shape[0]) or (ser.ndim == 2 and ser.shape[0] != ser.shape[1]):
        return [("parallel-arrays-differ", "lengths t=%d rv=%d err=%s" % (len(st), len(srv), ser.shape))]
    if len(srv) != n:
        return [("wrong-count", "%s: holds %d observations, expected %d" % (what, len(srv), n))]
    if d.rv.unit != exp["rv_unit"]:
        bad.append(("unit-changed", "rv unit %s != %s" % (d.rv.unit, exp["rv_unit"])))
    if d.rv_err.unit != exp["err_unit"]:
        bad.append(("unit-changed", "rv_err unit %s != %s" % (d.rv_err.unit, exp["err_unit"])))
    # time order (finite times must be non-decreasing; NaN times sort last)
    fin = np.isfinite(st)
    if np.any(np.diff(st[fin]) < 0) or (np.any(~fin) and np.any(fin[np.argmax(~fin):])):
        bad.append(("not-time-sorted", "stored times not non-decreasing"))
    # pairing: rv values are unique tags (NaN allowed once when clean=False) -> permutation
    in_rv = exp["rv"][idx]
    order_in = np.argsort(in_rv, kind="stable")
    order_st = np.argsort(srv, kind="stable")
    if not _nan_eq(in_rv[order_in], srv[order_st]):
        bad.append(("observations-altered", "%s: stored velocities are not the input velocities" % what))
        return bad
    perm = np.empty(n, dtype=int)      # stored position k holds input idx[perm[k]]
    perm[order_st] = order_in
    src = idx[perm]
    if not _nan_eq(exp["t"][src], st):
        bad.append(("pairing-broken", "%s: a velocity is stored with another observation's time" % what))
    if exp["has_cov"]:
        if ser.ndim != 2 or not _nan_eq(exp["err"][np.ix_(src, src)], ser):
            bad.append(("pairing-broken", "%s: covariance rows/columns do not follow their observations" % what))
    else:
        if ser.ndim != 1 or not _nan_eq(exp["err"][src], ser):
            bad.append(("pairing-broken", "%s: a velocity is stored with another observation's uncertainty" % what))
    # ivar
    try:
        iv = d.ivar
        if exp["has_cov"]:
            if np.all(np.isfinite(ser)) and n > 0:
                prod = np.asarray(iv.value) @ ser
                c = np.linalg.cond(ser)
                if not np.allclose(prod, np.eye(n), atol=1e-10 * max(c, 1.0) * n, rtol=0):
                    bad.append(("ivar-wrong", "ivar @ cov != I (max dev %.3g, cond %.3g)"
                                % (np.abs(prod - np.eye(n)).max(), c)))
        else:
            with np.errstate(all="ignore"):
                want = 1.0 / ser ** 2
            got = np.asarray(iv.to_value(1 / d.rv_err.unit ** 2), dtype=float)
            ok = np.isclose(got, want, rtol=1e-13, atol=0, equal_nan=True) | (np.isinf(want) & np.isinf(got))
            if not np.all(ok):
                bad.append(("ivar-wrong", "ivar != 1/err^2"))
    except Exception as e:  # noqa
        bad.append(("ivar-raises", "ivar raised %r" % (e,)))
    # reference epoch
    if t_ref is False:
        if d.t_ref is not None or d._t_ref_bmjd != 0.0:
            bad.append(("t_ref-wrong", "t_ref=False but t_ref=%r" % (d.t_ref,)))
    elif t_ref is None:
        if n > 0 and np.any(fin):
            if not (isinstance(d.t_ref, Time) and d._t_ref_bmjd == np.min(st[fin])
                    and float(d.t_ref.tcb.mjd) == np.min(st[fin])):
                bad.append(("t_ref-wrong", "default t_ref %r is not the earliest time %r"
                            % (d._t_ref_bmjd, np.min(st[fin]))))
    else:
        if not (isinstance(d.t_ref, Time) and float(d.t_ref.tcb.mjd) == float(t_ref.tcb.mjd)
                and d._t_ref_bmjd == float(t_ref.tcb.mjd)):
            bad.append(("t_ref-wrong", "explicit t_ref not kept"))
    return bad


def _rv_init_post(self, t, rv, rv_err, t_ref, clean):
    hit("RVData.__init__")
    try:
        exp = rvdata_expected(t, rv, rv_err, t_ref, clean)
        for key, msg in check_rvdata_against(self, exp, t_ref, "init"):
            fire("C15", key, msg, {"op": "init", "n_in": int(len(exp["rv"])), "clean": bool(clean)})
    except Exception as e:  # monitor's own failure must not hit the code under test
        fire("C15-monitor-error", "monitor-error", repr(e))
    return True


def _rv_snapshot(self):
    return dict(t=np.array(self._t_bmjd, dtype=float, copy=True),
                rv=np.array(self.rv.value, dtype=float, copy=True),
                err=np.array(self.rv_err.value, dtype=float, copy=True),
                rv_unit=self.rv.unit, err_unit=self.rv_err.unit,
                t_ref=self.t_ref, t_ref_bmjd=self._t_ref_bmjd, has_cov=self._has_cov)


def _rv_copy_post(self, result, OLD):
    hit("RVData.copy")
    try:
        o = OLD.snap
        if not np.all(np.isfinite(o["rv"])) or not np.all(np.isfinite(o["err"])) or not np.all(np.isfinite(o["t"])):
            hit("RVData.copy.skipped_nonfinite")
            return True
        exp = dict(t=o["t"], rv=o["rv"], err=o["err"], keep_idx=np.arange(len(o["rv"])),
                   has_cov=o["has_cov"], rv_unit=o["rv_unit"], err_unit=o["err_unit"])
        tr = o["t_ref"] if o["t_ref"] is not None else False
        for key, msg in check_rvdata_against(result, exp, tr, "copy"):
            if key == "t_ref-wrong":
                key = "copy-drops-t_ref"
                msg = ("copy(): reference epoch %r became %r" % (o["t_ref_bmjd"], result._t_ref_bmjd))
            fire("C15", key, msg, {"op": "copy", "n": int(len(o["rv"])), "t_ref_was": str(o["t_ref"])})
        if result is self or (len(o["rv"]) and np.shares_memory(result.rv.value, self.rv.value)):
            fire("C15", "copy-aliases", "copy shares memory with the original", {"op": "copy"})
    except Exception as e:
        fire("C15-monitor-error", "monitor-error", repr(e))
    return True


def _rv_getitem_post(self, slc, result, OLD):
    hit("RVData.__getitem__")
    try:
        o = OLD.snap
        if not (np.all(np.isfinite(o["rv"])) and np.all(np.isfinite(o["err"])) and np.all(np.isfinite(o["t"]))):
            return True
        sel = np.arange(len(o["rv"]))[slc]
        sel = np.atleast_1d(sel)
        exp = dict(t=o["t"], rv=o["rv"], err=o["err"], keep_idx=sel, has_cov=o["has_cov"],
                   rv_unit=o["rv_unit"], err_unit=o["err_unit"])
        for key, msg in check_rvdata_against(result, exp, None, "getitem"):
            fire("C15", "slice-" + key, msg, {"op": "getitem", "slc": repr(slc)[:80], "n": int(len(o["rv"]))})
    except Exception as e:
        fire("C15-monitor-error", "monitor-error", repr(e))
    return True


def install_rvdata():
    import icontract
    from thejoker.data import RVData
    if getattr(RVData, "__tjverif__", False):
        return
    RVData.__init__ = icontract.ensure(_rv_init_post, error=AssertionError)(RVData.__init__)
    RVData.__copy__ = icontract.snapshot(_rv_snapshot, name="snap")(
        icontract.ensure(_rv_copy_post, error=AssertionError)(RVData.__copy__))
    RVData.__getitem__ = icontract.snapshot(_rv_snapshot, name="snap")(
        icontract.ensure(_rv_getitem_post, error=AssertionError)(RVData.__getitem__))
    RVData.__tjverif__ = True
