"""Contracts and boundary wrappers attached to the *staged* thejoker modules.

Every monitor counts its evaluations in COUNTS and appends firings to FIRED
(never raises into the code under test unless asked to), so one API call can be
watched by several monitors at once and a driver reads the ones it owns.
"""
import functools
import os
import threading

import numpy as np

COUNTS = {}
FIRED = []          # list of dicts {monitor, key, what, case}
_lock = threading.Lock()


def hit(name, k=1):
    COUNTS[name] = COUNTS.get(name, 0) + k


def fire(monitor, key, what, case=None):
    FIRED.append({"monitor": monitor, "key": key, "what": what, "case": case, "pid": os.getpid()})


def drain(monitor=None):
    """Return and clear firings (optionally only those of one monitor)."""
    global FIRED
    if monitor is None:
        out, FIRED = FIRED, []
        return out
    out = [f for f in FIRED if f["monitor"] == monitor]
    FIRED = [f for f in FIRED if f["monitor"] != monitor]
    return out


# --------------------------------------------------------------------------
# C16: batch_tasks partition contract
# --------------------------------------------------------------------------

def check_partition(tasks, n_tasks, n_batches, arr, start_idx, args=None):
    """Return None if `tasks` is a correct partition, else (key, message)."""
    if not isinstance(tasks, list) or len(tasks) == 0:
        return ("no-batches", "no batches returned")
    pos = start_idx
    pieces = []
    for k, t in enumerate(tasks):
        if len(t) < 2:
            return ("malformed-task", "task %d has %d fields" % (k, len(t)))
        body, first = t[0], t[1]
        if arr is None:
            if not (isinstance(body, tuple) and len(body) == 2):
                return ("malformed-task", "task %d body %r" % (k, body))
            i1, i2 = body
            if i1 != pos:
                return ("gap-or-overlap", "task %d starts at %r, expected %r" % (k, i1, pos))
            if i2 <= i1:
                return ("empty-batch", "task %d is empty (%r,%r)" % (k, i1, i2))
            if first != i1:
                return ("wrong-start-index", "task %d carries start %r for range (%r,%r)" % (k, first, i1, i2))
            pos = i2
        else:
            n = len(body)
            if n == 0:
                return ("empty-batch", "task %d is empty" % k)
            if first != pos:
                return ("wrong-start-index", "task %d carries start %r, expected %r" % (k, first, pos))
            pieces.append(np.asarray(body))
            pos += n
    if pos != start_idx + n_tasks:
        return ("wrong-coverage", "batches end at %r, expected %r" % (pos, start_idx + n_tasks))
    if arr is not None:
        want = np.asarray(arr)[start_idx:start_idx + n_tasks]
        got = np.concatenate(pieces)
        if got.shape != want.shape or not np.array_equal(got, want):
            return ("wrong-elements", "concatenated pieces differ from arr[start:start+n]")
    if args is not None:
        for k, t in enumerate(tasks):
            if list(t[2:]) != list(args):
                return ("args-not-carried", "task %d extra fields differ from args" % k)
    return None


def wrap_batch_tasks(orig):
    @functools.wraps(orig)
    def batch_tasks(n_tasks, n_batches, arr=None, args=None, start_idx=0):
        tasks = orig(n_tasks, n_batches, arr=arr, args=args, start_idx=start_idx)
        hit("batch_tasks")
        if n_tasks >= 1 and n_batches >= 1 and start_idx >= 0:
            bad = check_partition(tasks, n_tasks, n_batches, arr, start_idx,
                                  args=list(args) if args is not None else [])
            if bad:
                fire("C16", bad[0], bad[1],
                     {"n_tasks": n_tasks, "n_batches": n_batches, "start_idx": start_idx,
                      "arr": None if arr is None else "len %d" % len(arr)})
        return tasks
    batch_tasks.__wrapped_by_tjverif__ = True
    return batch_tasks


def install_batch_tasks():
    import thejoker.multiproc_helpers as mh
    import thejoker.utils as ut
    if getattr(ut.batch_tasks, "__wrapped_by_tjverif__", False):
        return
    w = wrap_batch_tasks(ut.batch_tasks)
    ut.batch_tasks = w
    mh.batch_tasks = w


# --------------------------------------------------------------------------
# C15: RVData contracts (icontract, recording conditions that return True)
# --------------------------------------------------------------------------

def _nan_eq(a, b):
    a = np.asarray(a, dtype=float)
    b = np.asarray(b, dtype=float)
    return a.shape == b.shape and bool(np.all((a == b) | (np.isnan(a) & np.isnan(b))))


def rvdata_expected(t, rv, rv_err, t_ref, clean):
    """Independent statement of what an RVData must hold, from the inputs."""
    import astropy.units as u
    from astropy.time import Time
    if isinstance(t, Time):
        tt = np.atleast_1d(np.array(t.tcb.mjd, dtype=float))
    else:
        tt = np.atleast_1d(np.array(t, dtype=float))
    rvq = u.Quantity(np.atleast_1d(rv))
    erq = u.Quantity(np.atleast_1d(rv_err))
    rvv = np.array(rvq.value, dtype=float)
    erv = np.array(erq.value, dtype=float)
    has_cov = erv.ndim == 2
    keep = np.ones(len(rvv), dtype=bool)
    if clean:
        keep &= np.isfinite(tt) & np.isfinite(rvv)
        if has_cov:
            # an observation is finite iff its own time, velocity and variance are finite and so
            # are its covariances with every other such observation
            fc = np.isfinite(erv)
            own = keep & np.diag(fc)
            keep = own & np.array([bool(np.all(fc[i, own]) and np.all(fc[own, i])) for i in range(len(rvv))])
        else:
            keep &= np.isfinite(erv)
    idx = np.where(keep)[0]
    return dict(t=tt, rv=rvv, err=erv, keep_idx=idx, has_cov=has_cov,
                rv_unit=rvq.unit, err_unit=erq.unit)


def check_rvdata_against(d, exp, t_ref, what="init"):
    """Compare a constructed RVData `d` with the expectation. Returns list of (key, msg)."""
    from astropy.time import Time
    bad = []
    idx = exp["keep_idx"]
    n = len(idx)
    st = np.asarray(d._t_bmjd, dtype=float)
    srv = np.asarray(d.rv.value, dtype=float)
    ser = np.asarray(d.rv_err.value, dtype=float)
    if not (len(st) == len(srv) == ser.shape[0]) or (ser.ndim == 2 and ser.shape[0] != ser.shape[1]):
        return [("parallel-arrays-differ", "lengths t=%d rv=%d err=%s" % (len(st), len(srv), ser.shape))]
    if len(srv) != n:
        return [("wrong-count", "%s: holds %d observations, expected %d" % (what, len(srv), n))]
    if d.rv.unit != exp["rv_unit"]:
        bad.append(("unit-changed", "rv unit %s != %s" % (d.rv.unit, exp["rv_unit"])))
    if d.rv_err.unit != exp["err_unit"]:
        bad.append(("unit-changed", "rv_err unit %s != %s" % (d.rv_err.unit, exp["err_unit"])))
    # time order (finite times must be non-decreasing; NaN times sort last)
    fin = np.isfinite(st)
    if np.any(np.diff(st[fin]) < 0) or (np.any(~fin) and np.any(fin[np.argmax(~fin):])):
        bad.append(("not-time-sorted", "stored times not non-decreasing"))
    # pairing: rv values are unique tags (NaN allowed once when clean=False) -> permutation
    in_rv = exp["rv"][idx]
    order_in = np.argsort(in_rv, kind="stable")
    order_st = np.argsort(srv, kind="stable")
    if not _nan_eq(in_rv[order_in], srv[order_st]):
        bad.append(("observations-altered", "%s: stored velocities are not the input velocities" % what))
        return bad
    perm = np.empty(n, dtype=int)      # stored position k holds input idx[perm[k]]
    perm[order_st] = order_in
    src = idx[perm]
    if not _nan_eq(exp["t"][src], st):
        bad.append(("pairing-broken", "%s: a velocity is stored with another observation's time" % what))
    if exp["has_cov"]:
        if ser.ndim != 2 or not _nan_eq(exp["err"][np.ix_(src, src)], ser):
            bad.append(("pairing-broken", "%s: covariance rows/columns do not follow their observations" % what))
    else:
        if ser.ndim != 1 or not _nan_eq(exp["err"][src], ser):
            bad.append(("pairing-broken", "%s: a velocity is stored with another observation's uncertainty" % what))
    # ivar
    try:
        iv = d.ivar
        if exp["has_cov"]:
            if np.all(np.isfinite(ser)) and n > 0:
                prod = np.asarray(iv.value) @ ser
                c = np.linalg.cond(ser)
                if not np.allclose(prod, np.eye(n), atol=1e-10 * max(c, 1.0) * n, rtol=0):
                    bad.append(("ivar-wrong", "ivar @ cov != I (max dev %.3g, cond %.3g)"
                                % (np.abs(prod - np.eye(n)).max(), c)))
        else:
            with np.errstate(all="ignore"):
                want = 1.0 / ser ** 2
            got = np.asarray(iv.to_value(1 / d.rv_err.unit ** 2), dtype=float)
            # (single-precision uncertainties give single-precision inverse variances)
            rt = 1e-13 if np.asarray(d.rv_err.value).dtype.itemsize >= 8 else 1e-6
            ok = np.isclose(got, want, rtol=rt, atol=0, equal_nan=True) | (np.isinf(want) & np.isinf(got))
            if not np.all(ok):
                bad.append(("ivar-wrong", "ivar != 1/err^2"))
    except Exception as e:  # noqa
        bad.append(("ivar-raises", "ivar raised %r" % (e,)))
    # reference epoch
    if t_ref is False:
        if d.t_ref is not None or d._t_ref_bmjd != 0.0:
            bad.append(("t_ref-wrong", "t_ref=False but t_ref=%r" % (d.t_ref,)))
    elif t_ref is None:
        if n > 0 and np.any(fin):
            if not (isinstance(d.t_ref, Time) and d._t_ref_bmjd == np.min(st[fin])
                    and float(d.t_ref.tcb.mjd) == np.min(st[fin])):
                bad.append(("t_ref-wrong", "default t_ref %r is not the earliest time %r"
                            % (d._t_ref_bmjd, np.min(st[fin]))))
    else:
        if not (isinstance(d.t_ref, Time) and float(d.t_ref.tcb.mjd) == float(t_ref.tcb.mjd)
                and d._t_ref_bmjd == float(t_ref.tcb.mjd)):
            bad.append(("t_ref-wrong", "explicit t_ref not kept"))
    return bad


def _rv_init_post(self, t, rv, rv_err, t_ref, clean):
    hit("RVData.__init__")
    try:
        exp = rvdata_expected(t, rv, rv_err, t_ref, clean)
        for key, msg in check_rvdata_against(self, exp, t_ref, "init"):
            fire("C15", key, msg, {"op": "init", "n_in": int(len(exp["rv"])), "clean": bool(clean)})
    except Exception as e:  # monitor's own failure must not hit the code under test
        fire("C15-monitor-error", "monitor-error", repr(e))
    return True


def _rv_snapshot(self):
    return dict(t=np.array(self._t_bmjd, dtype=float, copy=True),
                rv=np.array(self.rv.value, dtype=float, copy=True),
                err=np.array(self.rv_err.value, dtype=float, copy=True),
                rv_unit=self.rv.unit, err_unit=self.rv_err.unit,
                t_ref=self.t_ref, t_ref_bmjd=self._t_ref_bmjd, has_cov=self._has_cov)


def _rv_copy_post(self, result, OLD):
    hit("RVData.copy")
    try:
        o = OLD.snap
        if not np.all(np.isfinite(o["rv"])) or not np.all(np.isfinite(o["err"])) or not np.all(np.isfinite(o["t"])):
            hit("RVData.copy.skipped_nonfinite")
            return True
        exp = dict(t=o["t"], rv=o["rv"], err=o["err"], keep_idx=np.arange(len(o["rv"])),
                   has_cov=o["has_cov"], rv_unit=o["rv_unit"], err_unit=o["err_unit"])
        tr = o["t_ref"] if o["t_ref"] is not None else False
        for key, msg in check_rvdata_against(result, exp, tr, "copy"):
            if key == "t_ref-wrong":
                key = "copy-drops-t_ref"
                msg = ("copy(): reference epoch %r became %r" % (o["t_ref_bmjd"], result._t_ref_bmjd))
            fire("C15", key, msg, {"op": "copy", "n": int(len(o["rv"])), "t_ref_was": str(o["t_ref"])})
        if result is self or (len(o["rv"]) and np.shares_memory(result.rv.value, self.rv.value)):
            fire("C15", "copy-aliases", "copy shares memory with the original", {"op": "copy"})
    except Exception as e:
        fire("C15-monitor-error", "monitor-error", repr(e))
    return True


def _rv_getitem_post(self, slc, result, OLD):
    hit("RVData.__getitem__")
    try:
        o = OLD.snap
        if not (np.all(np.isfinite(o["rv"])) and np.all(np.isfinite(o["err"])) and np.all(np.isfinite(o["t"]))):
            return True
        sel = np.arange(len(o["rv"]))[slc]
        sel = np.atleast_1d(sel)
        exp = dict(t=o["t"], rv=o["rv"], err=o["err"], keep_idx=sel, has_cov=o["has_cov"],
                   rv_unit=o["rv_unit"], err_unit=o["err_unit"])
        for key, msg in check_rvdata_against(result, exp, None, "getitem"):
            fire("C15", "slice-" + key, msg, {"op": "getitem", "slc": repr(slc)[:80], "n": int(len(o["rv"]))})
    except Exception as e:
        fire("C15-monitor-error", "monitor-error", repr(e))
    return True


def install_rvdata():
    import icontract
    from thejoker.data import RVData
    if getattr(RVData, "__tjverif__", False):
        return
    RVData.__init__ = icontract.ensure(_rv_init_post, error=AssertionError)(RVData.__init__)
    RVData.__copy__ = icontract.snapshot(_rv_snapshot, name="snap")(
        icontract.ensure(_rv_copy_post, error=AssertionError)(RVData.__copy__))
    RVData.__getitem__ = icontract.snapshot(_rv_snapshot, name="snap")(
        icontract.ensure(_rv_getitem_post, error=AssertionError)(RVData.__getitem__))
    RVData.__tjverif__ = True


# --------------------------------------------------------------------------
# C17: JokerSamples contracts
# --------------------------------------------------------------------------
TWO_PI = 2 * np.pi


def _meta_of(s):
    m = s.tbl.meta
    tr = m.get("t_ref")
    return (None if tr is None else float(tr.tcb.mjd) if hasattr(tr, "tcb") else float(tr), m.get("poly_trend"), m.get("n_offsets"))


def _units_of(s):
    return {k: str(s.tbl[k].unit) if getattr(s.tbl[k], "unit", None) is not None else "" for k in s.tbl.colnames}


def _snap_samples(self):
    import astropy.units as u
    cols = {}
    for k in self.tbl.colnames:
        c = self.tbl[k]
        cols[k] = (np.array(getattr(c, "value", c), dtype=float, copy=True), getattr(c, "unit", None))
    return dict(cols=cols, meta=_meta_of(self), units=_units_of(self), n=len(self))


def _wrapK_post(self, result, OLD):
    import astropy.units as u
    hit("JokerSamples.wrap_K")
    try:
        o = OLD.snap
        K0, Ku = o["cols"]["K"]
        w0, wu = o["cols"]["omega"]
        K1 = np.asarray(self.tbl["K"].value, dtype=float)
        w1 = np.asarray(self.tbl["omega"].value, dtype=float)
        case = {"n": int(o["n"]), "n_negative": int(np.sum(K0 < 0)), "omega_unit": str(wu)}
        if result is not self:
            fire("C17", "wrap_K-returns-other", "wrap_K did not return self", case)
        if self.tbl["K"].unit != Ku or self.tbl["omega"].unit != wu:
            fire("C17", "wrap_K-unit-changed", "units changed", case)
            return True
        if np.any(K1 < 0):
            fire("C17", "wrap_K-negative-left", "negative K remains after wrap_K", case)
        pos = ~(K0 < 0)
        if not (np.array_equal(K1[pos], K0[pos]) and np.array_equal(w1[pos], w0[pos])):
            fire("C17", "wrap_K-touches-nonnegative", "a row with K>=0 was modified", case)
        neg = K0 < 0
        if np.any(neg):
            if not np.array_equal(K1[neg], -K0[neg]):
                fire("C17", "wrap_K-magnitude", "K' != |K| on a wrapped row", case)
            full = (TWO_PI * u.rad).to_value(wu)
            half = full / 2
            d = (w1[neg] - w0[neg] - half) / full
            if not np.all(np.abs(d - np.round(d)) < 1e-9):
                fire("C17", "wrap_K-omega-shift", "omega did not move by pi (mod 2pi) on a wrapped row", case)
            if np.any(w1[neg] < 0) or np.any(w1[neg] >= full * (1 + 1e-15)):
                fire("C17", "wrap_K-omega-range", "wrapped omega outside [0, 2pi)", case)
        for k, (v0, un) in o["cols"].items():
            if k not in ("K", "omega"):
                if not _nan_eq(v0, np.asarray(getattr(self.tbl[k], "value", self.tbl[k]), dtype=float)):
                    fire("C17", "wrap_K-other-column", "column %s changed" % k, case)
        if _meta_of(self) != o["meta"]:
            fire("C17", "metadata-lost", "wrap_K changed metadata", case)
    except Exception as e:
        fire("C17-monitor-error", "monitor-error", "wrap_K: %r" % (e,))
    return True


def _phase_time_post(self, phase, t_ref, result):
    import astropy.units as u
    hit("JokerSamples.get_time_with_phase")
    try:
        tr = t_ref if t_ref is not None else self.t_ref
        P = self["P"].to_value(u.day)
        M0 = self["M0"].to_value(u.rad)
        ph = u.Quantity(phase).to_value(u.rad)
        dt = np.atleast_1d((result - tr).to_value(u.day))
        Mt = TWO_PI * dt / P - M0
        d = (Mt - ph) / TWO_PI
        dev = np.abs(d - np.round(d)) * TWO_PI
        tol = 1e-9 + 1e-12 * (np.abs(M0) + np.abs(ph))
        if np.any(dev > tol):
            k = int(np.argmax(dev - tol))
            fire("C17", "phase-time-wrong",
                 "mean anomaly at the returned time differs from the requested phase by %.3g rad" % dev[k],
                 {"P_day": float(np.atleast_1d(P)[k]), "M0": float(np.atleast_1d(M0)[k]), "phase": float(ph)})
    except Exception as e:
        fire("C17-monitor-error", "monitor-error", "get_time_with_phase: %r" % (e,))
    return True


def _derived_post_factory(opname):
    def post(self, result, OLD):
        hit("JokerSamples." + opname)
        try:
            o = OLD.snap
            case = {"op": opname, "n": int(o["n"]), "meta": o["meta"]}
            if _meta_of(result) != o["meta"]:
                fire("C17", "metadata-lost", "%s: (t_ref, poly_trend, n_offsets) %r became %r"
                     % (opname, o["meta"], _meta_of(result)), case)
            if _units_of(result) != o["units"]:
                fire("C17", "units-lost", "%s: units/columns %r became %r" % (opname, o["units"], _units_of(result)), case)
            if opname == "median_period" and len(result) != 1:
                fire("C17", "median_period-not-one-row", "median_period returned %d rows (the property: one actual member row)"
                     % len(result), case)
            elif opname == "median_period":
                P0 = o["cols"]["P"][0]
                want = np.sort(P0)[len(P0) // 2]
                Pr = float(np.squeeze(result["P"].value))
                rows = np.where(P0 == Pr)[0]
                member = False
                for j in rows:
                    if all(_nan_eq(np.squeeze(o["cols"][k][0][j]),
                                   np.squeeze(np.asarray(getattr(result.tbl[k], "value", result.tbl[k]), dtype=float)))
                           for k in o["cols"]):
                        member = True
                if not member:
                    fire("C17", "median_period-not-member", "median_period returned a row that is not in the table", case)
                elif Pr != want:
                    fire("C17", "median_period-not-median", "median_period P=%r, median order statistic %r" % (Pr, want), case)
            elif opname == "copy":
                for k, (v0, un) in o["cols"].items():
                    v1 = np.asarray(getattr(result.tbl[k], "value", result.tbl[k]), dtype=float)
                    if not _nan_eq(v0, v1):
                        fire("C17", "copy-values", "copy changed column %s" % k, case)
                    if len(v0) and np.shares_memory(v1, np.asarray(getattr(self.tbl[k], "value", self.tbl[k]))):
                        fire("C17", "copy-aliases", "copy shares memory for column %s" % k, case)
            elif opname in ("mean", "std"):
                f = np.mean if opname == "mean" else np.std
                for k, (v0, un) in o["cols"].items():
                    v1 = np.asarray(getattr(result.tbl[k], "value", result.tbl[k]), dtype=float)
                    w = f(v0)
                    if not (v1.shape == (1,) and (np.isclose(v1[0], w, rtol=1e-12, atol=0, equal_nan=True) or v1[0] == w)):
                        fire("C17", "%s-values" % opname, "%s of column %s is %r, expected %r" % (opname, k, v1, w), case)
        except Exception as e:
            fire("C17-monitor-error", "monitor-error", "%s: %r" % (opname, e))
        return True
    post.__name__ = "_%s_post" % opname
    return post


def _getitem_post(self, key, result, OLD):
    try:
        if isinstance(key, str):
            return True
        hit("JokerSamples.__getitem__")
        o = OLD.snap
        case = {"op": "getitem", "key": repr(key)[:80], "n": int(o["n"])}
        if _meta_of(result) != o["meta"]:
            fire("C17", "metadata-lost", "getitem: (t_ref, poly_trend, n_offsets) %r became %r"
                 % (o["meta"], _meta_of(result)), case)
        if _units_of(result) != o["units"]:
            fire("C17", "units-lost", "getitem: units/columns changed", case)
        sel = np.arange(o["n"])[np.asarray(key) if isinstance(key, list) else key]
        for k, (v0, un) in o["cols"].items():
            v1 = np.atleast_1d(np.asarray(getattr(result.tbl[k], "value", result.tbl[k]), dtype=float))
            if not _nan_eq(np.atleast_1d(v0[sel]), v1):
                fire("C17", "getitem-rows", "getitem returned other rows for column %s" % k, case)
                break
    except Exception as e:
        fire("C17-monitor-error", "monitor-error", "getitem: %r" % (e,))
    return True


def install_samples():
    import icontract
    from thejoker.samples import JokerSamples as JS
    if getattr(JS, "__tjverif__", False):
        return
    snap = icontract.snapshot(_snap_samples, name="snap")
    JS.wrap_K = snap(icontract.ensure(_wrapK_post, error=AssertionError)(JS.wrap_K))
    JS.get_time_with_phase = icontract.ensure(_phase_time_post, error=AssertionError)(JS.get_time_with_phase)
    for op in ("median_period", "copy", "mean", "std"):
        setattr(JS, op, snap(icontract.ensure(_derived_post_factory(op), error=AssertionError)(getattr(JS, op))))
    JS.__getitem__ = snap(icontract.ensure(_getitem_post, error=AssertionError)(JS.__getitem__))
    JS.__tjverif__ = True


# --------------------------------------------------------------------------
# C08: validate_prepare_data contract
# --------------------------------------------------------------------------
def _vpd_check(data, poly_trend, n_offsets, result):
    """Return list of (key, msg). Single RVData input is trivially labelled."""
    from thejoker.data import RVData
    import astropy.units as u
    all_data, ids, trend_M = result
    bad = []
    if isinstance(data, RVData):
        if len(all_data) != len(data) or np.any(np.asarray(ids) != np.asarray(ids)[0] if len(ids) else False):
            bad.append(("single-source-altered", "single source came back altered"))
        return bad
    if hasattr(data, "keys"):
        keys = list(data.keys())
        srcs = [data[k] for k in keys]
        is_list = False
    else:
        srcs = list(data)
        keys = list(range(len(srcs)))
        is_list = True
    unit = srcs[0].rv.unit
    T = np.concatenate([np.asarray(s._t_bmjd, float) for s in srcs])
    V = np.concatenate([s.rv.to_value(unit) for s in srcs])
    E = np.concatenate([s.rv_err.to_value(unit) for s in srcs])
    OWN = np.concatenate([[i] * len(s) for i, s in enumerate(srcs)])
    n = len(T)
    mt = np.asarray(all_data._t_bmjd, float)
    mv = all_data.rv.to_value(unit)
    me = all_data.rv_err.to_value(unit)
    ids = np.asarray(ids)
    trend_M = np.asarray(trend_M)
    if not (len(mt) == len(mv) == len(me) == len(ids) == trend_M.shape[0] == n):
        return [("union-size", "merged %d rows, ids %d, design %d, inputs %d" % (len(mt), len(ids), trend_M.shape[0], n))]
    if np.any(np.diff(mt) < 0):
        bad.append(("not-time-sorted", "merged data not time-sorted"))
    # match every merged row to its input row (unique velocity tags)
    o_in = np.argsort(V, kind="stable")
    o_m = np.argsort(mv, kind="stable")
    if not (np.allclose(V[o_in], mv[o_m], rtol=1e-12, atol=0) and np.allclose(T[o_in], mt[o_m], rtol=0, atol=1e-8)
            and np.allclose(E[o_in], me[o_m], rtol=1e-12, atol=0)):
        bad.append(("not-the-union", "merged (t, rv, err) triples are not the union of the inputs"))
        return bad
    if len(np.unique(V)) != n:
        return bad      # tags not unique: pairing undecidable, skip silently (counted by caller)
    src_of_row = np.empty(n, dtype=int)
    src_of_row[o_m] = OWN[o_in]
    # ids must name the survey of each row
    want_ids = np.array([keys[i] for i in src_of_row], dtype=ids.dtype if ids.dtype.kind in "US" else None)
    labels_ok = bool(np.all(ids.astype(str) == np.array([str(keys[i]) for i in src_of_row])))
    if not labels_ok:
        concat = np.array([str(keys[i]) for i in OWN])
        chrono_in = bool(np.all(np.diff(T) >= 0))
        if chrono_in:
            # input already in time order (ties included): the pinned code labels it correctly; nothing known explains this
            bad.append(("survey-labels-wrong-on-chronological-input",
                        "the surveys were given in time order, yet %d of %d merged rows carry another survey's label"
                        % (int(np.sum(ids.astype(str) != np.array([str(keys[i]) for i in src_of_row]))), n)))
        elif np.all(ids.astype(str) == concat):
            bad.append(("survey-labels-not-time-sorted",
                        "ids are in concatenation order while the observations are time-sorted: %d of %d rows carry "
                        "another survey's label" % (int(np.sum(ids.astype(str) != np.array([str(keys[i]) for i in src_of_row]))), n)))
        else:
            bad.append(("survey-labels-wrong", "ids do not name the survey each observation came from"))
    # design matrix: constant column, then one indicator per non-reference survey, then trend
    ns = len(srcs)
    if not labels_ok:
        # the indicator columns are derived from ids: with wrong ids they are wrong for the same reason.
        # Judge them against the code's own ids so an independent design defect is still seen.
        key_index = {str(k): i for i, k in enumerate(keys)}
        try:
            src_of_row = np.array([key_index[str(x)] for x in ids])
        except KeyError:
            return bad
    if trend_M.shape[1] != ns + poly_trend - 1:
        bad.append(("design-shape", "design has %d columns, expected %d" % (trend_M.shape[1], ns + poly_trend - 1)))
        return bad
    if not np.all(trend_M[:, 0] == 1.0):
        bad.append(("design-constant", "first design column is not all ones"))
    covered = []
    for j in range(1, ns):
        col = trend_M[:, j]
        if not np.all((col == 0) | (col == 1)):
            bad.append(("design-indicator", "offset column %d is not 0/1" % j))
            continue
        rows = np.where(col == 1)[0]
        owners = set(src_of_row[rows].tolist())
        if len(owners) != 1 or len(rows) != int(np.sum(src_of_row == (list(owners)[0] if owners else -1))):
            key = "survey-labels-not-time-sorted" if not labels_ok and not bool(np.all(np.diff(T) >= 0)) and np.all(
                ids.astype(str) == np.array([str(keys[i]) for i in OWN])) else "offset-column-mixes-surveys"
            bad.append((key, "offset column dv0_%d selects rows of surveys %s (it must select all rows of exactly one)"
                        % (j, sorted(owners))))
        else:
            covered.append(list(owners)[0])
            if is_list and list(owners)[0] != j:
                bad.append(("list-offset-order", "list input: dv0_%d is attached to source %d" % (j, list(owners)[0])))
    if len(set(covered)) == ns - 1 and is_list and 0 in covered:
        bad.append(("list-reference", "list input: the first source is not the offset-free reference"))
    dt = mt - all_data._t_ref_bmjd
    for i in range(1, poly_trend):
        if not np.allclose(trend_M[:, ns - 1 + i], dt ** i, rtol=1e-13, atol=0):
            bad.append(("design-trend", "trend column %d is not (t - t_ref)^%d" % (i, i)))
    # dedupe keys
    seen, out = set(), []
    for k, m in bad:
        if k not in seen:
            seen.add(k)
            out.append((k, m))
    return out


def wrap_validate_prepare_data(orig):
    @functools.wraps(orig)
    def validate_prepare_data(data, poly_trend, n_offsets):
        result = orig(data, poly_trend, n_offsets)
        hit("validate_prepare_data")
        try:
            for key, msg in _vpd_check(data, poly_trend, n_offsets, result):
                fire("C08", key, msg, {"poly_trend": poly_trend, "n_offsets": n_offsets})
        except Exception as e:
            fire("C08-monitor-error", "monitor-error", repr(e))
        return result
    validate_prepare_data.__wrapped_by_tjverif__ = True
    return validate_prepare_data


def install_validate_prepare_data():
    import thejoker.data_helpers as dh
    import thejoker.thejoker as tj
    if getattr(dh.validate_prepare_data, "__wrapped_by_tjverif__", False):
        return
    w = wrap_validate_prepare_data(dh.validate_prepare_data)
    dh.validate_prepare_data = w
    tj.validate_prepare_data = w
