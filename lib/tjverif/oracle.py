"""Reference models.  Nothing here imports thejoker.

O-kepler   : independent Kepler solver (longdouble Newton + bisection) and RV basis z(t)
O-marginal : closed-form Gaussian marginal ln N(y | M mu, C_s + M Lambda M^T) in mpmath,
             posterior (a, A) of the linear parameters, forward-error tolerance.
"""
import math

import numpy as np

try:
    import mpmath as mp
except Exception:  # pragma: no cover
    mp = None

LD = np.longdouble
TWO_PI_LD = LD(2) * np.arccos(LD(-1))
EPS = float(np.finfo(float).eps)
# safety factor on the measured round-off spread (see marginal()). Calibration on the repaired tree: over 28.8k
# hostile values the kernel's deviation never exceeded 0.21 x (floor + 1024 spread); over 285k values it never
# exceeded 2.2 x (floor + 64 spread), i.e. 0.14 x this tolerance.
TOL_FACTOR = 1024


# ---------------------------------------------------------------- O-kepler
def kepler_E(Mv, e):
    """Solve E - e sin E = M in longdouble; returns E (same shape as M)."""
    Mv = np.asarray(Mv, dtype=LD)
    e = LD(e)
    # reduce to [-pi, pi]
    k = np.round(Mv / TWO_PI_LD)
    Mr = Mv - k * TWO_PI_LD
    E = Mr + e * np.sin(Mr) / (1 - np.sin(Mr + e) + np.sin(Mr)) if False else Mr + e * np.sin(Mr)
    lo = Mr - e
    hi = Mr + e
    for _ in range(200):
        f = E - e * np.sin(E) - Mr
        # maintain the bracket
        lo = np.where(f < 0, np.maximum(lo, E), lo)
        hi = np.where(f > 0, np.minimum(hi, E), hi)
        fp = 1 - e * np.cos(E)
        En = E - f / fp
        bad = ~((En >= lo) & (En <= hi))
        En = np.where(bad, (lo + hi) / 2, En)
        if np.all(np.abs(En - E) <= 4 * np.finfo(LD).eps * (1 + np.abs(E))):
            E = En
            break
        E = En
    return E + k * TWO_PI_LD


def rv_basis(t, P, e, omega, M0, t_ref):
    """z(t) = cos(omega + f) + e cos(omega), M = 2 pi (t - t_ref)/P - M0 (longdouble)."""
    t = np.asarray(t, dtype=LD)
    Mv = TWO_PI_LD * (t - LD(t_ref)) / LD(P) - LD(M0)
    E = kepler_E(Mv, e)
    e = LD(e)
    f = 2 * np.arctan2(np.sqrt(1 + e) * np.sin(E / 2), np.sqrt(1 - e) * np.cos(E / 2))
    return np.cos(LD(omega) + f) + e * np.cos(LD(omega))


def kepler_tol(t, P, e, t_ref):
    """Allowance for |z_C - z_ref|: the C solver stops at |dM| < 1e-10 and works in double."""
    dphi = np.max(np.abs(np.asarray(t, dtype=float) - t_ref)) / P if len(np.atleast_1d(t)) else 0.0
    return (2e-10 + 64 * EPS * (1 + 2 * math.pi * dphi)) / (1 - e) ** 2


# ---------------------------------------------------------------- O-marginal
class Linear:
    """A fully specified linear-Gaussian problem in the data unit.

    t, y, sig : epochs (BMJD), velocities and 1-sigma errors, time-sorted
    design_rest : (n, L-1) columns after the K column: [1 | survey indicators | dt | dt^2 ...]
    mu, lam_rest : prior means (length L) and variances of the non-K parameters (length L-1)
    K prior: kind 'normal' (varK fixed) or 'default' (sigma_K0, P0_day, max_K in data unit)
    """

    def __init__(self, t, y, sig, t_ref, design_rest, mu, lam_rest, kprior):
        self.t = np.asarray(t, dtype=float)
        self.y = np.asarray(y, dtype=float)
        self.sig = np.asarray(sig, dtype=float)
        self.t_ref = float(t_ref)
        self.D = np.asarray(design_rest, dtype=float).reshape(len(self.t), -1)
        self.mu = np.asarray(mu, dtype=float)
        self.lam_rest = np.asarray(lam_rest, dtype=float)
        self.kprior = dict(kprior)
        self.L = 1 + self.D.shape[1]

    def var_K(self, P_day, e):
        k = self.kprior
        if k["kind"] == "normal":
            return k["sigma"] ** 2
        v = k["sigma_K0"] ** 2 * (P_day / k["P0_day"]) ** (-2.0 / 3) / (1 - e ** 2)
        return min(v, k["max_K"] ** 2)


def z_column(lin, P, e, omega, M0, source="c"):
    """K column. source='c': twobody's C routine with the kernel's arguments (bit-identical to the
    kernel's column); source='ref': O-kepler."""
    if source == "c":
        from twobody.wrap import cy_rv_from_elements
        return cy_rv_from_elements(np.ascontiguousarray(lin.t), float(P), 1.0, float(e), float(omega),
                                   float(M0), lin.t_ref, 1e-10, 128)
    return np.asarray(rv_basis(lin.t, P, e, omega, M0, lin.t_ref), dtype=float)


def _mpm(a):
    a = np.asarray(a, dtype=float)
    if a.ndim == 1:
        return mp.matrix([mp.mpf(float(x)) for x in a])
    m = mp.matrix(a.shape[0], a.shape[1])
    for i in range(a.shape[0]):
        for j in range(a.shape[1]):
            m[i, j] = mp.mpf(float(a[i, j]))
    return m


def marginal(lin, z, P_day, e, s, want_post=True, varK=None, jitter=True):
    """Return dict(ll, a, A, tol, condB, condAinv, varK) for one nonlinear row.
    `z` is the K column to use; `s` the jitter in the data unit."""
    n, L = len(lin.y), lin.L
    Mmat = np.column_stack([np.asarray(z, dtype=float), lin.D]) if L > 1 else np.asarray(z, float).reshape(n, 1)
    vK = lin.var_K(P_day, e) if varK is None else varK
    lam = np.concatenate([[vK], lin.lam_rest])
    var = lin.sig ** 2 + (float(s) ** 2 if jitter else 0.0)
    mu = lin.mu
    r = lin.y - Mmat @ mu
    # ---- float64 quantities for the tolerance
    B = np.diag(var) + (Mmat * lam) @ Mmat.T
    Ainv = np.diag(1.0 / lam) + (Mmat.T / var) @ Mmat
    try:
        condB = float(np.linalg.cond(B))
        condA = float(np.linalg.cond(Ainv))
        A64 = np.linalg.inv(Ainv)
        evB = np.linalg.eigvalsh(B)
        evB = np.where(evB > 0, evB, np.min(var))
    except Exception:
        condB = condA = float("inf")
        A64 = np.eye(L)
        evB = var
    w = np.abs(Mmat).T @ (np.abs(r) / var)
    S2 = float(w @ np.abs(A64) @ w)
    S1 = float(np.sum(r ** 2 / var)) + S2 + float(np.sum(np.abs(np.log(evB))))
    tol_bound = 1e-10 + 32 * EPS * (n * S1 + condA * S2 + n * condB)
    spread, alg = roundoff_spread(Mmat, lam, var, lin.y, mu)
    spread_e, emu = emulation_spread(Mmat, lam, var, lin.y, mu)
    # ---- mpmath ground truth
    old = mp.mp.dps
    mp.mp.dps = 50
    try:
        Mm = _mpm(Mmat)
        Bm = mp.matrix(n, n)
        lamm = [mp.mpf(float(x)) for x in lam]
        for i in range(n):
            for j in range(i, n):
                acc = mp.mpf(0)
                for k in range(L):
                    acc += Mm[i, k] * lamm[k] * Mm[j, k]
                if i == j:
                    acc += mp.mpf(float(var[i]))
                Bm[i, j] = acc
                Bm[j, i] = acc
        rm = _mpm(r)
        Lc = mp.cholesky(Bm)
        # solve L x = r
        x = mp.lu_solve(Lc, rm) if False else _fwd(Lc, rm, n)
        chi2 = sum(xi * xi for xi in x)
        logdet = 2 * sum(mp.log(Lc[i, i]) for i in range(n))
        ll = -(chi2 + logdet + n * mp.log(2 * mp.pi)) / 2
        # tolerance = measured round-off of the kernel's own algorithm (Woodbury + LU in float64, re-implemented
        # here) under 1-ulp input perturbations, times a safety factor, plus its bias against the exact value
        # ... plus the error of the kernel's *declared instruction sequence* (kernel_emul: Woodbury, B formed entry by
        # entry, LU log-determinant) on this input: forming B in float64 rounds every entry at ulp(max |B|), which
        # moves the small eigenvalues by an unstructured amount that the structured input perturbations above never
        # produce (thorough seed 1: cond B 3.6e9, log-determinant off by 6.7e-8, numpy re-implementation off by 3e-10)
        tol = (1e-10 + 1e-10 * abs(float(ll)) + TOL_FACTOR * spread + 8 * abs(alg - float(ll))
               + 8 * abs(emu - float(ll)) + 8 * spread_e)
        if not np.isfinite(tol):
            tol = float("inf")
        out = dict(ll=float(ll), tol=float(tol), tol_bound=float(tol_bound), spread=float(spread), emul=float(emu),
                   condB=condB, condAinv=condA, varK=float(vK), n=n)
        if want_post:
            Am_inv = mp.matrix(L, L)
            ivar = [1 / mp.mpf(float(v)) for v in var]
            for i in range(L):
                for j in range(i, L):
                    acc = mp.mpf(0)
                    for k in range(n):
                        acc += Mm[k, i] * ivar[k] * Mm[k, j]
                    if i == j:
                        acc += 1 / lamm[i]
                    Am_inv[i, j] = acc
                    Am_inv[j, i] = acc
            Am = Am_inv ** -1
            ym = _mpm(lin.y)
            rhs = mp.matrix(L, 1)
            for i in range(L):
                acc = mp.mpf(float(mu[i])) / lamm[i]
                for k in range(n):
                    acc += Mm[k, i] * ivar[k] * ym[k]
                rhs[i] = acc
            am = Am * rhs
            out["a"] = np.array([float(am[i]) for i in range(L)])
            out["A"] = np.array([[float(Am[i, j]) for j in range(L)] for i in range(L)])
        return out
    finally:
        mp.mp.dps = old


def _fwd(Lc, b, n):
    x = [mp.mpf(0)] * n
    for i in range(n):
        acc = b[i]
        for j in range(i):
            acc -= Lc[i, j] * x[j]
        x[i] = acc / Lc[i, i]
    return x


def marginal_f64(lin, z, P_day, e, s, varK=None):
    """Plain float64 Cholesky version (fast; used for cross-checks and bulk work where tol allows)."""
    n, L = len(lin.y), lin.L
    Mmat = np.column_stack([np.asarray(z, dtype=float), lin.D]) if L > 1 else np.asarray(z, float).reshape(n, 1)
    vK = lin.var_K(P_day, e) if varK is None else varK
    lam = np.concatenate([[vK], lin.lam_rest])
    var = lin.sig ** 2 + float(s) ** 2
    r = lin.y - Mmat @ lin.mu
    B = np.diag(var) + (Mmat * lam) @ Mmat.T
    c = np.linalg.cholesky(B)
    x = np.linalg.solve(c, r)
    return float(-0.5 * (x @ x + 2 * np.sum(np.log(np.diag(c))) + n * math.log(2 * math.pi)))


def ln_normal_full(x, mean, cov):
    """ln N(x | mean, cov) for small dense cov (mpmath)."""
    x = np.asarray(x, float)
    mean = np.asarray(mean, float)
    k = len(x)
    old = mp.mp.dps
    mp.mp.dps = 50
    try:
        C = _mpm(np.asarray(cov, float).reshape(k, k))
        Lc = mp.cholesky(C)
        y = _fwd(Lc, _mpm(x - mean), k)
        return float(-(sum(v * v for v in y) + 2 * sum(mp.log(Lc[i, i]) for i in range(k)) + k * mp.log(2 * mp.pi)) / 2)
    finally:
        mp.mp.dps = old


def ln_normal_diag(x, mean, var):
    x, mean, var = np.asarray(x, float), np.asarray(mean, float), np.asarray(var, float)
    return float(np.sum(-0.5 * (np.log(2 * np.pi * var) + (x - mean) ** 2 / var)))


def conditions(lin, z, P_day, e, s):
    """(cond B, cond Ainv) in float64 for one row."""
    n, L = len(lin.y), lin.L
    Mmat = np.column_stack([np.asarray(z, dtype=float), lin.D]) if L > 1 else np.asarray(z, float).reshape(n, 1)
    lam = np.concatenate([[lin.var_K(P_day, e)], lin.lam_rest])
    var = lin.sig ** 2 + float(s) ** 2
    B = np.diag(var) + (Mmat * lam) @ Mmat.T
    Ainv = np.diag(1.0 / lam) + (Mmat.T / var) @ Mmat
    try:
        return float(np.linalg.cond(B)), float(np.linalg.cond(Ainv))
    except Exception:
        return float("inf"), float("inf")


def _kernel_alg(Mmat, lam, var, y, mu):
    """The kernel's algorithm, re-implemented with numpy/LAPACK in float64."""
    import scipy.linalg as sl
    n = len(y)
    ivar = 1.0 / var
    Ainv = np.diag(1.0 / lam) + (Mmat.T * ivar) @ Mmat
    A = np.linalg.inv(Ainv)
    B = np.diag(var) + (Mmat * lam) @ Mmat.T
    lu, piv = sl.lu_factor(B, check_finite=False)
    logdet = float(np.sum(np.log(2 * np.pi * np.abs(np.diag(lu)))))
    CM = ivar[:, None] * Mmat
    Binv = np.diag(ivar) - CM @ A @ CM.T
    r = Mmat @ mu - y
    chi2 = float(r @ Binv @ r)
    return -0.5 * (chi2 + logdet)


def kernel_emul(Mmat, lam, var, y, mu):
    """The kernel's own instruction sequence (fast_likelihood.pyx make_AAinv / make_bBBinv / likelihood_worker) in
    float64, vectorised without changing the order of any rounding: on the pinned tree it reproduces the kernel's value
    bit for bit. Fed with the *oracle's* M, Lambda, mu and variances, never with the kernel's."""
    import scipy.linalg.lapack as lp
    Mmat = np.asarray(Mmat, dtype=float)
    n, L = Mmat.shape
    MT = np.ascontiguousarray(Mmat.T)
    iv = 1.0 / np.asarray(var, dtype=float)
    lam = np.asarray(lam, dtype=float)
    mu = np.asarray(mu, dtype=float)
    y = np.asarray(y, dtype=float)
    Ainv = np.diag(1.0 / lam)
    for k in range(n):
        Ainv = Ainv + (MT[:, k] * iv[k])[None, :] * MT[:, k][:, None]
    lu, piv, info = lp.dgetrf(Ainv.T)          # LAPACK sees the C-ordered array transposed
    if info != 0:
        return float("inf")
    At, info = lp.dgetri(lu, piv)
    if info != 0:
        return float("inf")
    A = At.T
    b = np.zeros(n)
    for i in range(L):
        b = b + MT[i] * mu[i]
    B = np.diag(1.0 / iv)
    for i in range(L):
        B = B + (MT[i] * lam[i])[:, None] * MT[i][None, :]
    Binv = np.diag(iv).copy()
    for i in range(L):
        li = iv * MT[i]
        for j in range(L):
            Binv = Binv - ((li * A[i, j])[:, None] * MT[j][None, :]) * iv[None, :]
    lu, piv, info = lp.dgetrf(B.T)
    if info != 0:
        return float("inf")
    ld = float(np.cumsum(np.log(2 * math.pi * np.abs(np.diag(lu))))[-1])
    r = b - y
    chi2 = float(np.cumsum(((r[None, :] * Binv) * r[:, None]).ravel())[-1])
    return -0.5 * (chi2 + ld)


def input_ulp_sensitivity(lin, P_day, e, omega, M0, s, ulps=(2, -2, 1, -1)):
    """max |ll(P(1+k eps), omega(1+k eps), M0(1+k eps), s(1+k eps)) - ll(P, omega, M0, s)| of the kernel's declared algorithm
    (kernel_emul): how far the value moves when the nonlinear inputs move by a unit conversion's worth of rounding. The
    phase 2 pi (t - t_ref) / P amplifies an ulp of P by the number of elapsed cycles, which no relative perturbation of
    the design-matrix column reproduces."""
    n, L = len(lin.y), lin.L

    def ll_at(P_, om_, M0_, s_):
        z = np.asarray(z_column(lin, P_, e, om_, M0_, "c"), dtype=float)
        Mmat = np.column_stack([z, lin.D]) if L > 1 else z.reshape(n, 1)
        lam = np.concatenate([[lin.var_K(P_, e)], lin.lam_rest])
        with np.errstate(all="ignore"):
            return kernel_emul(Mmat, lam, lin.sig ** 2 + float(s_) ** 2, lin.y, lin.mu)
    try:
        base = ll_at(P_day, omega, M0, s)
        worst = 0.0
        for k in ulps:
            f = 1.0 + k * EPS
            d = abs(ll_at(P_day * f, omega * f, M0 * f, s * f) - base)
            if not np.isfinite(d):
                return float("inf")
            worst = max(worst, d)
        return worst
    except Exception:
        return float("inf")


def emulation_spread(Mmat, lam, var, y, mu, k=3):
    """(max |emul(perturbed) - emul|, emul) over k one-ulp perturbations; (0, nan)-like values never tighten anything."""
    with np.errstate(all="ignore"):
        try:
            base = kernel_emul(Mmat, lam, var, y, mu)
            if not np.isfinite(base):
                return float("inf"), base
            worst = 0.0
            for _ in range(k):
                def p(a):
                    return a * (1.0 + (_prng.integers(-1, 2, size=np.shape(a))) * EPS)
                d = abs(kernel_emul(p(Mmat), p(lam), p(var), p(y), p(mu)) - base)
                if not np.isfinite(d):
                    return float("inf"), base
                worst = max(worst, d)
            return worst, base
        except Exception:
            return float("inf"), float("nan")


_prng = np.random.default_rng(12345)


def roundoff_spread(Mmat, lam, var, y, mu, k=6):
    """max |ll(perturbed) - ll| over k random 1-ulp relative perturbations of every input, and ll itself."""
    with np.errstate(all="ignore"):
        try:
            base = _kernel_alg(Mmat, lam, var, y, mu)
            worst = 0.0
            for _ in range(k):
                def p(a):
                    return a * (1.0 + (_prng.integers(-1, 2, size=np.shape(a))) * EPS)
                v = _kernel_alg(p(Mmat), p(lam), p(var), p(y), p(mu))
                d = abs(v - base)
                if not np.isfinite(d):
                    return float("inf"), base
                worst = max(worst, d)
            return worst, base
        except Exception:
            return float("inf"), float("nan")
