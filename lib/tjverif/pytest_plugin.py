"""pytest plugin: run the repository's own tests with every contract installed (false-alarm audit and
one more workload). Firings are written to $TJV_AUDIT_OUT as JSON."""
import json
import os
import sys

deps = os.environ.get("TJV_DEPS")
if deps and deps not in sys.path:
    sys.path.append(deps)


def pytest_sessionstart(session):
    import warnings
    with warnings.catch_warnings():
        warnings.simplefilter("ignore")
        from tjverif import monitors as M
        M.install_batch_tasks()
        M.install_rvdata()
        M.install_samples()
        M.install_validate_prepare_data()


def pytest_sessionfinish(session, exitstatus):
    from tjverif import monitors as M
    out = os.environ.get("TJV_AUDIT_OUT")
    if out:
        with open(out, "w") as f:
            json.dump({"counts": M.COUNTS, "fired": [{k: str(v)[:300] for k, v in x.items()} for x in M.FIRED]}, f, indent=1)
