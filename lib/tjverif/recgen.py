"""RecordingGenerator: a numpy Generator subclass that logs every draw, then delegates.
Child generators handed to pool workers are re-wrapped (same bit generator => same stream) by a
wrapper around multiproc_helpers.make_full_samples_worker, so their draws are recorded too;
in forked workers the events go to a per-pid JSONL file that the parent merges."""
import json
import os

import numpy as np

EVENTS = []          # in-process event list
_SEQ = [0]


def _log(ev):
    _SEQ[0] += 1
    ev["seq"] = _SEQ[0]
    ev["pid"] = os.getpid()
    EVENTS.append(ev)
    path = os.environ.get("TJV_RNG_LOG")
    if path and os.getpid() != int(os.environ.get("TJV_MAIN_PID", "0") or 0):
        with open("%s.%d" % (path, os.getpid()), "a") as f:
            f.write(json.dumps({k: (v.tolist() if isinstance(v, np.ndarray) else v) for k, v in ev.items()}) + "\n")


def _key_of(bitgen):
    ss = getattr(bitgen, "_seed_seq", None)
    if ss is None:
        return None
    return {"entropy": str(ss.entropy), "spawn_key": list(ss.spawn_key), "n_children_spawned": int(ss.n_children_spawned)}


SCRIPT = {"order": None, "used": 0}


class RecordingGenerator(np.random.Generator):
    """numpy.random.Generator that records (op, arguments, result) of every draw."""

    def __init__(self, bit_generator, label="parent"):
        super().__init__(bit_generator)
        self._tjv_label = label

    # numpy's Generator.__reduce__ would rebuild a plain Generator: keep the subclass across pickling
    def __reduce__(self):
        return (_rebuild, (self.bit_generator, self._tjv_label))

    _tjv_nest = 0

    def _ev(self, op, **kw):
        # numpy implements some draws through others (permutation -> shuffle, multivariate_normal ->
        # standard_normal): only the outermost call, i.e. what the code under test asked for, is an event
        if self._tjv_nest > 0:
            return
        kw.update(op=op, gen=self._tjv_label, key=_key_of(self.bit_generator))
        _log(kw)

    def _outer(self, fn, *a, **k):
        self._tjv_nest += 1
        try:
            return fn(*a, **k)
        finally:
            self._tjv_nest -= 1

    def uniform(self, low=0.0, high=1.0, size=None):
        r = super().uniform(low, high, size)
        self._ev("uniform", low=low, high=high, size=size, result=np.array(r, copy=True))
        return r

    def random(self, size=None, dtype=np.float64, out=None):
        r = super().random(size=size, dtype=dtype, out=out)
        self._ev("random", size=size, result=np.array(r, copy=True))
        return r

    def choice(self, a, size=None, replace=True, p=None, axis=0, shuffle=True):
        r = self._outer(super().choice, a, size=size, replace=replace, p=p, axis=axis, shuffle=shuffle)
        if SCRIPT["order"] is not None and np.isscalar(a) and not replace:
            # a scripted draw: some seed produces every subset in every order; this reaches the rare ones (e.g. an order that
            # looks like one ascending block by its end points) without searching for that seed
            o = np.asarray(SCRIPT["order"](int(a), int(size if size is not None else 1)), dtype=np.asarray(r).dtype)
            if o.shape == np.shape(r) and len(set(o.tolist())) == len(o) and o.min() >= 0 and o.max() < int(a):
                r = o
                SCRIPT["used"] += 1
        self._ev("choice", a=a if np.isscalar(a) else "array(%d)" % len(a), size=size, replace=replace,
                 result=np.array(r, copy=True))
        return r

    def multivariate_normal(self, mean, cov, size=None, **kw):
        r = self._outer(super().multivariate_normal, mean, cov, size=size, **kw)
        self._ev("multivariate_normal", mean=np.array(mean, dtype=float, copy=True),
                 cov=np.array(cov, dtype=float, copy=True), size=size, result=np.array(r, copy=True))
        return r

    def standard_normal(self, size=None, dtype=np.float64, out=None):
        r = super().standard_normal(size=size, dtype=dtype, out=out)
        self._ev("standard_normal", size=size, result=np.array(r, copy=True))
        return r

    def normal(self, loc=0.0, scale=1.0, size=None):
        r = super().normal(loc, scale, size)
        self._ev("normal", size=size, result=np.array(r, copy=True))
        return r

    def integers(self, low, high=None, size=None, dtype=np.int64, endpoint=False):
        r = super().integers(low, high=high, size=size, dtype=dtype, endpoint=endpoint)
        self._ev("integers", low=low, high=high, size=size, result=np.array(r, copy=True))
        return r

    def permutation(self, x, axis=0):
        r = self._outer(super().permutation, x, axis=axis)
        self._ev("permutation", result=np.array(r, copy=True))
        return r

    def shuffle(self, x, axis=0):
        super().shuffle(x, axis=axis)
        self._ev("shuffle", result=np.array(x, copy=True))

    def beta(self, a, b, size=None):
        r = super().beta(a, b, size)
        self._ev("beta", size=size, result=np.array(r, copy=True))
        return r


def _rebuild(bitgen, label):
    return RecordingGenerator(bitgen, label)


def make(seed, label="parent"):
    return RecordingGenerator(np.random.PCG64(seed), label)


def reset():
    EVENTS.clear()


def events(op=None, gen=None):
    out = EVENTS
    if op is not None:
        out = [e for e in out if e["op"] == op]
    if gen is not None:
        out = [e for e in out if e["gen"] == gen]
    return out


def collect_worker_logs():
    """Merge per-pid logs written by forked workers; returns list of events (result as lists)."""
    path = os.environ.get("TJV_RNG_LOG")
    out = []
    if not path:
        return out
    d = os.path.dirname(path)
    base = os.path.basename(path)
    for fn in sorted(os.listdir(d)):
        if fn.startswith(base + "."):
            with open(os.path.join(d, fn)) as f:
                for ln in f:
                    out.append(json.loads(ln))
            os.unlink(os.path.join(d, fn))
    return out


def install_child_recording():
    """Wrap multiproc_helpers.make_full_samples_worker so the per-task child generator is recorded."""
    import thejoker.multiproc_helpers as mh
    if getattr(mh.make_full_samples_worker, "__tjv__", False):
        return
    orig = mh.make_full_samples_worker

    def make_full_samples_worker(task):
        task = tuple(task)
        rng = task[-1]
        if isinstance(rng, np.random.Generator) and not isinstance(rng, RecordingGenerator):
            k = _key_of(rng.bit_generator)
            label = "child:%s" % (",".join(str(x) for x in k["spawn_key"]) if k else "?")
            task = task[:-1] + (RecordingGenerator(rng.bit_generator, label),)
            _log({"op": "child-start", "gen": label, "key": k, "task_start": int(task[1]),
                  "n_rows": int(len(task[0]) if not isinstance(task[0], tuple) else task[0][1] - task[0][0])})
        return orig(task)
    # picklable by reference for multiprocessing pools: resolves to this wrapper in forked workers
    make_full_samples_worker.__module__ = mh.__name__
    make_full_samples_worker.__qualname__ = "make_full_samples_worker"
    make_full_samples_worker.__name__ = "make_full_samples_worker"
    make_full_samples_worker.__tjv__ = True
    make_full_samples_worker.__wrapped__ = orig
    mh.make_full_samples_worker = make_full_samples_worker
