"""C10: deterministic scenarios (call sequences on one TheJoker) and their output digests.
`python -m tjverif.repro <json>` runs scenarios in a fresh interpreter and prints the digests."""
import hashlib
import json
import os
import random
import sys

import numpy as np

from . import gen, recgen, session

CALLS = ["read-random-batch", "prior-sample", "prior-sample-linear", "rejection-obj-mem", "rejection-obj-cache", "rejection-file", "rejection-int",
         "rejection-int-mem", "iterative-mem", "iterative-cache", "rejection-cache-random", "rejection-cache-random-all",
         "rejection-mem-random", "iterative-cache-random", "prior-sample-legacy-keyword"]


def digest_samples(s):
    h = hashlib.sha256()
    h.update(("%d|%s" % (len(s), ",".join(s.par_names))).encode())
    for k in s.par_names:
        col = s.tbl[k]
        h.update(np.ascontiguousarray(np.asarray(getattr(col, "value", col), dtype=float)).tobytes())
        h.update(str(getattr(col, "unit", "")).encode())
    return h.hexdigest()[:20]


def global_state_digest():
    st = np.random.get_state()
    h = hashlib.sha256()
    h.update(np.asarray(st[1]).tobytes())
    h.update(repr(st[2:]).encode())
    h.update(repr(random.getstate()).encode())
    return h.hexdigest()[:16]


def make_scenario(seed_tuple):
    rng = np.random.default_rng(list(seed_tuple))
    pb = session.make_problem(rng, N=int(rng.choice([30, 120, 400])), profile=str(rng.choice(["moderate", "flat"])),
                              kkind=str(rng.choice(["default", "default-custom"])), poly_trend=int(rng.choice([1, 2])))
    ncall = int(rng.integers(3, 8))
    calls = []
    for _ in range(ncall):
        c = str(rng.choice(CALLS))
        calls.append(dict(kind=c, n_batches=int(rng.choice([1, 2, 3, 7])), n_linear=int(rng.choice([1, 3])),
                          size=int(rng.choice([20, 100])), n_req=int(rng.choice([1, 3]))))
    api_seed = int(rng.integers(0, 2 ** 31))
    # every scenario truncates one in-memory run (max_posterior_samples below the number accepted): which rows are kept is
    # part of the output and must not involve any other source of randomness
    calls.insert(int(rng.integers(0, len(calls) + 1)), dict(kind="rejection-mem-truncated", n_batches=1, n_linear=int(rng.choice([1, 3])),
                                                           size=20, n_req=1))
    if rng.random() < 0.5:
        # the same request a second time on the same object (anything remembered from the first must not answer the second)
        byc = [c for c in calls if c["kind"].startswith("rejection-int")]
        pick = byc[int(rng.integers(0, len(byc)))] if byc and rng.random() < 0.7 else calls[int(rng.integers(0, len(calls)))]
        calls.append(dict(pick, repeated=True))
    return pb, calls, api_seed


def run_scenario(seed_tuple, tmpdir, pool_kind=0, api_seed_shift=0, pool=None, record=False, guard=None):
    """Returns list of per-call dicts {kind, digest, n, Kvals?, error?}."""
    import schwimmbad
    from thejoker import TheJoker
    pb, calls, api_seed = make_scenario(seed_tuple)
    api_seed += api_seed_shift
    own_pool = False
    if pool is None:
        pool = schwimmbad.SerialPool() if pool_kind == 0 else schwimmbad.MultiPool(processes=pool_kind)
        own_pool = pool_kind != 0
    g = recgen.make(api_seed) if record else np.random.default_rng(api_seed)
    joker = TheJoker(pb.prior, pool=pool, rng=g, tempfile_path=tmpdir)
    path = os.path.join(tmpdir, "repro_lib_%d.hdf5" % os.getpid())
    pb.lib.write(path, overwrite=True)
    out = []
    for k, c in enumerate(calls):
        kind = c["kind"]
        before = global_state_digest()
        try:
            if kind == "read-random-batch":
                from thejoker import JokerSamples
                from thejoker.utils import read_batch
                arr = read_batch(path, ["P", "e", "omega"], min(c["size"], pb.N), units={"P": gen.U("yr")},
                                 rng=np.random.default_rng(api_seed + 3000 + k))
                r = JokerSamples()
                import astropy.units as u_
                r["P"] = arr[:, 0] * u_.yr
                r["e"] = arr[:, 1]
                r["omega"] = arr[:, 2] * u_.rad
            elif kind == "prior-sample":
                r = pb.prior.sample(size=c["size"], rng=np.random.default_rng(api_seed + 1000 + k), return_logprobs=True)
            elif kind == "prior-sample-legacy-keyword":
                # the pre-v1.3 spelling of the seed argument (still accepted, with a deprecation warning): same stream as rng=
                import warnings as _w
                with _w.catch_warnings():
                    _w.simplefilter("ignore")
                    r = pb.prior.sample(size=c["size"], random_state=np.random.default_rng(api_seed + 1000 + k), return_logprobs=True)
            elif kind == "prior-sample-linear":
                r = pb.prior.sample(size=c["size"], generate_linear=True, rng=np.random.default_rng(api_seed + 2000 + k))
            elif kind == "rejection-obj-mem":
                r = joker.rejection_sample(pb.data, pb.lib, n_linear_samples=c["n_linear"], in_memory=True,
                                           **({"max_posterior_samples": 2} if k % 2 else {}))
            elif kind == "rejection-mem-truncated":
                r = joker.rejection_sample(pb.data, pb.lib, n_linear_samples=c["n_linear"], in_memory=True, max_posterior_samples=2)
            elif kind == "rejection-obj-cache":
                r = joker.rejection_sample(pb.data, pb.lib, n_linear_samples=c["n_linear"], n_batches=c["n_batches"])
            elif kind == "rejection-file":
                r = joker.rejection_sample(pb.data, path, n_linear_samples=c["n_linear"], n_batches=c["n_batches"],
                                           return_logprobs=True)
            elif kind == "rejection-cache-random":
                r = joker.rejection_sample(pb.data, path, n_batches=c["n_batches"], randomize_prior_order=True,
                                           n_prior_samples=max(1, pb.N // 2))
            elif kind == "rejection-cache-random-all":
                # the whole library in a random order (another code path than a random subset)
                r = joker.rejection_sample(pb.data, path if k % 2 else pb.lib, n_batches=c["n_batches"], randomize_prior_order=True)
            elif kind == "rejection-mem-random":
                r = joker.rejection_sample(pb.data, pb.lib, in_memory=True, randomize_prior_order=True,
                                           n_prior_samples=max(1, pb.N - 1))
            elif kind == "iterative-cache-random":
                r = joker.iterative_rejection_sample(pb.data, path, n_requested_samples=c["n_req"], init_batch_size=10,
                                                     n_linear_samples=c["n_linear"], n_batches=c["n_batches"],
                                                     randomize_prior_order=True)
            elif kind == "rejection-int":
                r = joker.rejection_sample(pb.data, c["size"] * 3, n_batches=c["n_batches"])
            elif kind == "rejection-int-mem":
                r = joker.rejection_sample(pb.data, c["size"] * 3, in_memory=True, return_logprobs=True)
            elif kind == "iterative-mem":
                r = joker.iterative_rejection_sample(pb.data, pb.lib, n_requested_samples=c["n_req"], init_batch_size=10,
                                                     n_linear_samples=c["n_linear"], in_memory=True)
            else:
                r = joker.iterative_rejection_sample(pb.data, path, n_requested_samples=c["n_req"], init_batch_size=10,
                                                     n_linear_samples=c["n_linear"], n_batches=c["n_batches"])
            ent = dict(kind=kind, digest=digest_samples(r), n=len(r))
            if "K" in r.par_names and kind.startswith(("rejection", "iterative")):
                ent["K"] = [float(x) for x in np.asarray(r["K"].value, dtype=float)]
            if kind.startswith("rejection-int"):
                # prior samples requested by count are drawn afresh from the generator on every call
                ent["P_bycount"] = sorted(set(float(x) for x in np.asarray(r["P"].value, dtype=float)))
        except Exception as e:
            ent = dict(kind=kind, digest="raised:" + type(e).__name__, n=-1, error=repr(e)[:200])
        after = global_state_digest()
        ent["global_rng_untouched"] = (before == after)
        out.append(ent)
    if os.path.exists(path):
        os.unlink(path)
    if own_pool:
        pool.close()
    return out


if __name__ == "__main__":
    import warnings
    warnings.filterwarnings("ignore")
    deps = os.environ.get("TJV_DEPS")
    if deps and deps not in sys.path:
        sys.path.append(deps)
    spec = json.load(open(sys.argv[1]))
    np.random.seed(spec.get("global_seed", 12345))
    random.seed(spec.get("global_seed", 12345))
    res = {}
    for st in spec["scenarios"]:
        res[json.dumps(st)] = [dict(kind=e["kind"], digest=e["digest"], n=e["n"]) for e in
                               run_scenario(st, spec["tmpdir"], pool_kind=0)]
    json.dump(res, open(sys.argv[2], "w"))
