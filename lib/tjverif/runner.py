"""Orchestrator: stage the working tree, run a property's driver in shards,
aggregate, classify against known_findings.json, write evidence, print verdict
lines, exit 0/1.  Pure stdlib; runs under /venv/bin/python."""
import argparse
import hashlib
import json
import os
import shutil
import subprocess
import sys
import tempfile
import time

HERE = os.path.dirname(os.path.abspath(__file__))
VERIF = os.path.dirname(os.path.dirname(HERE))
sys.path.insert(0, os.path.dirname(HERE))

from tjverif import build  # noqa: E402

PY = "/venv/bin/python"
DEPS = os.path.join(VERIF, ".deps")
WHEELS = "/opt/veriftools/wheels"
LEVELS = {"C13": "fault_enumeration"}


def ensure_deps():
    need = ["icontract", "deal", "mpmath"]
    if all(os.path.isdir(os.path.join(DEPS, n)) for n in need):
        return
    subprocess.run([PY, "-m", "pip", "install", "--no-index", "--find-links", WHEELS,
                    "--target", DEPS, "--quiet"] + need, check=True,
                   stdout=subprocess.DEVNULL, stderr=subprocess.DEVNULL)


def load_known():
    p = os.path.join(VERIF, "known_findings.json")
    if not os.path.exists(p):
        return []
    with open(p) as f:
        return json.load(f).get("findings", [])


def find_driver(pid):
    d = os.path.join(VERIF, "checks")
    for fn in sorted(os.listdir(d)):
        if fn.lower().startswith(pid.lower() + "_") and fn.endswith(".py"):
            return os.path.join(d, fn)
    raise SystemExit("no driver for %s" % pid)


def shard_env(stage_dir, tmpdir, extra=None, variant="plain"):
    env = dict(os.environ)
    env["PYTHONPATH"] = os.pathsep.join([stage_dir, os.path.join(VERIF, "lib")])
    env["TJV_DEPS"] = DEPS
    env["TMPDIR"] = tmpdir
    env["HOME"] = tmpdir          # TheJoker's default tempfile_path is ~/.thejoker
    env["PYTHONHASHSEED"] = "0"
    env["MPLBACKEND"] = "Agg"
    env["OMP_NUM_THREADS"] = "1"
    env["OPENBLAS_NUM_THREADS"] = "1"
    env["MKL_NUM_THREADS"] = "1"
    env["NUMBA_CACHE_DIR"] = os.path.join(tmpdir, "numba")
    flags = "base_compiledir=%s" % os.path.join(tmpdir, "pt")
    if os.environ.get("TJV_LINKER", "py") == "py":
        flags = "linker=py,cxx=," + flags
    env["PYTENSOR_FLAGS"] = flags
    env["PYTHONWARNINGS"] = "ignore"
    if variant == "asan":
        env.update(build.asan_env())
    if extra:
        env.update(extra)
    return env


VALGRIND = ["valgrind", "--tool=memcheck", "--error-limit=no", "--num-callers=30", "--track-origins=no",
            "--read-var-info=no", "--leak-check=no"]


def sanitizer_findings(variant, log_text):
    """Return list of (key, what) extracted from a shard log of a sanitizer variant."""
    out = []
    if variant == "asan":
        for marker, key in (("ERROR: AddressSanitizer", "asan-report"), ("runtime error:", "ubsan-report")):
            k = log_text.find(marker)
            if k >= 0:
                out.append((key, log_text[k:k + 1200]))
    elif variant == "valgrind":
        # error blocks: "==pid== <Kind>" ... stack lines; keep those with a kernel frame
        blocks = []
        cur = []
        for ln in log_text.splitlines():
            if ln.startswith("==") and "== " in ln:
                body = ln.split("== ", 1)[1] if "== " in ln else ""
                if body.strip() == "":
                    if cur:
                        blocks.append(cur)
                    cur = []
                else:
                    cur.append(body)
        if cur:
            blocks.append(cur)
        for b in blocks:
            txt = "\n".join(b)
            if ("fast_likelihood" in txt or "twobody" in txt) and (
                    "Invalid" in b[0] or "uninitialised" in b[0] or "Conditional jump" in b[0] or "Use of" in b[0]
                    or "Mismatched" in b[0] or "Source and destination overlap" in b[0]):
                out.append(("valgrind-report", txt[:1200]))
    return out


def run_shards(driver, stage_dir, work, ctxs, timeout, variant="plain", extra_env=None, par=16):
    """ctxs: list of ctx dicts. Returns list of (ctx, result-or-None, diag)."""
    procs = []
    results = []
    pending = list(enumerate(ctxs))
    running = []
    t_start = time.time()
    while pending or running:
        while pending and len(running) < par:
            k, ctx = pending.pop(0)
            sdir = os.path.join(work, "shard%03d" % k)
            os.makedirs(sdir, exist_ok=True)
            ctx = dict(ctx)
            ctx["tmpdir"] = sdir
            ctx["out"] = os.path.join(sdir, "result.json")
            with open(os.path.join(sdir, "ctx.json"), "w") as f:
                json.dump(ctx, f)
            log = open(os.path.join(sdir, "log.txt"), "w")
            cmd = [PY, "-m", "tjverif.shard", driver, os.path.join(sdir, "ctx.json")]
            env = shard_env(stage_dir, sdir, extra_env, "asan" if variant == "asan" else "plain")
            if variant == "valgrind":
                cmd = VALGRIND + cmd
                env["PYTHONMALLOC"] = "malloc"
            p = subprocess.Popen(cmd, env=env,
                                 stdout=log, stderr=subprocess.STDOUT, cwd=sdir)
            running.append((k, ctx, p, log, time.time()))
        still = []
        for k, ctx, p, log, t0 in running:
            rc = p.poll()
            if rc is None:
                if time.time() - t0 > timeout:
                    p.kill()
                    p.wait()
                    log.close()
                    results.append((ctx, None, "watchdog after %ds" % timeout))
                else:
                    still.append((k, ctx, p, log, t0))
                continue
            log.close()
            res = None
            if os.path.exists(ctx["out"]):
                try:
                    with open(ctx["out"]) as f:
                        res = json.load(f)
                except Exception as e:  # noqa
                    res = None
            diag = ""
            with open(os.path.join(ctx["tmpdir"], "log.txt"), errors="replace") as f:
                logtxt = f.read()
            if variant in ("asan", "valgrind"):
                found = sanitizer_findings(variant, logtxt)
                if found:
                    if res is None:
                        res = {"evaluations": 0, "violations": [], "counters": {}}
                    for key, what in found[:5]:
                        res.setdefault("violations", []).append(
                            {"key": key, "what": what[:600], "case": {"variant": variant, "report": what}})
                if res is not None:
                    res.setdefault("counters", {})["sanitizer_%s_shards_clean" % variant] = 0 if found else 1
                    res["counters"]["sanitizer_%s_reports" % variant] = len(found)
            if res is None:
                diag = "rc=%s log-tail=%s" % (rc, logtxt[-3000:])
            results.append((ctx, res, diag))
        running = still
        if running:
            time.sleep(0.05)
    return results


def aggregate(pid, tier, seed, results, stage_info, wall, rule, level, replay_mode=False):
    known = [k for k in load_known() if k["property"] == pid]
    known_keys = {k["key"]: k for k in known if k.get("status") == "known"}
    ev = dict(evaluations=0, distinct=set(), samples=[], counters={}, violations=[],
              borderline=0, notes=[], inconclusive=[])
    for ctx, res, diag in results:
        if res is None:
            ev["inconclusive"].append("shard %s produced no result: %s" % (ctx.get("shard"), diag))
            continue
        ev["evaluations"] += int(res.get("evaluations", 0))
        ev["distinct"].update(res.get("distinct", []))
        ev["distinct_count"] = ev.get("distinct_count", 0) + int(res.get("distinct_count", 0))
        for s in res.get("samples", []):
            if len(ev["samples"]) < 6:
                ev["samples"].append(s)
        for k, v in res.get("counters", {}).items():
            if isinstance(v, (int, float)):
                ev["counters"][k] = ev["counters"].get(k, 0) + v
            else:
                ev["counters"][k] = v
        for k, v in res.get("maxima", {}).items():
            ev["counters"]["max_" + k] = max(ev["counters"].get("max_" + k, float("-inf")), v)
        ev["borderline"] += int(res.get("borderline", 0))
        ev["notes"].extend(res.get("notes", [])[:5])
        if res.get("inconclusive"):
            ev["inconclusive"].append(res["inconclusive"])
        for v in res.get("violations", []):
            v = dict(v)
            v["_ctx"] = {k: ctx[k] for k in ("seed", "shard", "nshards", "tier", "mode") if k in ctx}
            ev["violations"].append(v)
    # classify
    unknown = []
    known_hits = {}
    for v in ev["violations"]:
        key = v.get("key", "unclassified")
        if key in known_keys:
            known_hits.setdefault(key, []).append(v)
        else:
            unknown.append(v)
    lines = []
    for key, vs in sorted(known_hits.items()):
        lines.append("KNOWN-FINDING: property=%s %s [key=%s, observed %d time(s) this run]"
                     % (pid, known_keys[key]["what"], key, len(vs)))
    replays = []
    rdir = os.path.join(VERIF, "evidence", "replays")
    if os.path.isdir(rdir) and not replay_mode:
        for fn in os.listdir(rdir):
            if fn.startswith(pid + "-"):
                os.unlink(os.path.join(rdir, fn))
    seen_keys = {}
    for v in unknown:
        key = v.get("key", "unclassified")
        seen_keys[key] = seen_keys.get(key, 0) + 1
        if seen_keys[key] > 3:
            continue
        os.makedirs(rdir, exist_ok=True)
        blob = json.dumps(v, sort_keys=True, default=str)
        name = "%s-%s.json" % (pid, hashlib.sha256(blob.encode()).hexdigest()[:10])
        with open(os.path.join(rdir, name), "w") as f:
            json.dump({"property": pid, "violation": v}, f, indent=1, default=str)
        rel = os.path.join("evidence", "replays", name)
        replays.append(rel)
        lines.append("VIOLATION property=%s replay=%s key=%s what=%s"
                     % (pid, rel, key, str(v.get("what", ""))[:300]))
    distinct = len(ev["distinct"]) + ev.get("distinct_count", 0)
    if not ev["samples"] and ev["evaluations"] > 0:
        # a driver whose own sampling condition happened never to fire: the evidence still says what was observed
        ev["samples"].append({"note": "the driver recorded no example case in this run", "evaluations": ev["evaluations"],
                              "first_distinct_classes": sorted(ev["distinct"])[:5]})
    coverage = {
        "evaluations": ev["evaluations"],
        "distinct_nontrivial": distinct,
        "rule": rule,
        "samples": ev["samples"],
        "monitor_counters": ev["counters"],
        "borderline_excluded": ev["borderline"],
        "known_findings_observed": {k: len(v) for k, v in known_hits.items()},
        "unlisted_violation_keys": seen_keys,
        "kernel": {k: stage_info.get(k) for k in ("kernel_route", "kernel_variant", "tree_sha", "warning")
                   if stage_info.get(k) is not None},
        "notes": ev["notes"][:20],
        "inconclusive": ev["inconclusive"][:10],
        "shards": len(results),
    }
    evidence = {
        "property_id": pid, "tier": tier, "seed": seed, "level": level,
        "coverage": coverage,
        "assumptions": [],
        "wall_s": round(wall, 2),
        "violations": len(unknown),
    }
    return evidence, lines, unknown, ev


def main(argv=None):
    ap = argparse.ArgumentParser()
    ap.add_argument("pid")
    ap.add_argument("--tier", default=os.environ.get("VERIF_TIER", "quick"))
    ap.add_argument("--replay", default=None)
    ap.add_argument("--keep", action="store_true")
    ap.add_argument("--shards", type=int, default=None)
    a = ap.parse_args(argv)
    pid = a.pid.upper()
    tier = a.tier if a.tier in ("quick", "thorough") else "quick"
    seed = int(os.environ.get("VERIF_SEED", "0") or 0)
    repo = os.environ.get("VERIF_REPO", "/repo")
    t0 = time.time()
    ensure_deps()
    os.makedirs(build.SCRATCH, exist_ok=True)
    work = tempfile.mkdtemp(prefix="run-%s-" % pid, dir=build.SCRATCH)
    rc = 1
    try:
        driver = find_driver(pid)
        # driver static metadata (no thejoker import needed)
        meta = {}
        with open(driver) as f:
            src = f.read()
        exec(compile(src.split("# ---- END META ----")[0], driver, "exec"), meta)
        META = meta["META"]
        variants = META.get("variants", {}).get(tier, ["plain"])
        all_results = []
        stage_info = {}
        replay_case = None
        if a.replay:
            with open(a.replay) as f:
                replay_case = json.load(f)["violation"]
        for variant in variants:
            try:
                stage_dir, info = build.stage(repo, "plain" if variant == "valgrind" else variant,
                                              dest=os.path.join(work, "stage-" + variant))
            except build.KernelUnbuildable as e:
                if variant == "plain":
                    raise
                stage_info.setdefault("skipped_variants", []).append("%s: %s" % (variant, str(e)[:200]))
                continue
            if variant == "plain" or not stage_info.get("kernel_route"):
                stage_info.update(info)
            stage_info.setdefault("variants_run", []).append(variant)
            nsh = a.shards or META.get("shards", {}).get(tier, 1)
            if variant != "plain":
                nsh = min(nsh, META.get("sanitizer_shards", 1))
            ctxs = []
            if replay_case is not None:
                c = dict(replay_case.get("_ctx", {}))
                c.update(pid=pid, replay=replay_case, variant=variant, repo=repo, mode=c.get("mode", variant))
                c.setdefault("seed", seed), c.setdefault("shard", 0), c.setdefault("nshards", 1)
                c.setdefault("tier", tier)
                ctxs = [c]
            else:
                for s in range(nsh):
                    ctxs.append(dict(pid=pid, seed=seed, tier=tier, shard=s, nshards=nsh,
                                     variant=variant, mode=variant, repo=repo))
            timeout = META.get("timeout", {}).get(tier, 600)
            res = run_shards(driver, stage_dir, work, ctxs, timeout, variant=variant,
                             extra_env=META.get("env"))
            all_results.extend(res)
            if replay_case is not None:
                break
        wall = time.time() - t0
        level = LEVELS.get(pid, "exploration")
        evidence, lines, unknown, ev = aggregate(pid, tier, seed, all_results, stage_info, wall,
                                                 META["rule"], level, replay_mode=replay_case is not None)
        evidence["assumptions"] = META.get("assumptions", [])
        if META.get("exhaustive_key") and ev["counters"].get(META["exhaustive_key"]):
            evidence["coverage"]["exhaustive"] = True
        if stage_info.get("skipped_variants"):
            evidence["coverage"]["skipped_variants"] = stage_info["skipped_variants"]
        evidence["coverage"]["variants_run"] = stage_info.get("variants_run")
        min_eval = META.get("min_evaluations", {}).get(tier, 1)
        inconclusive = list(ev["inconclusive"])
        if replay_case is None and evidence["coverage"]["evaluations"] < min_eval:
            inconclusive.append("only %d evaluations (< %d): deciding monitor not reached often enough"
                                % (evidence["coverage"]["evaluations"], min_eval))
        if replay_case is None and evidence["coverage"]["distinct_nontrivial"] < 2:
            inconclusive.append("fewer than 2 distinct non-trivial cases")
        if replay_case is None and not os.environ.get("VERIF_NOEVIDENCE"):
            os.makedirs(os.path.join(VERIF, "evidence"), exist_ok=True)
            with open(os.path.join(VERIF, "evidence", pid + ".json"), "w") as f:
                json.dump(evidence, f, indent=1, default=str)
        if stage_info.get("warning"):
            print("WARNING: " + stage_info["warning"])
        for ln in lines:
            print(ln)
        print("SUMMARY property=%s tier=%s seed=%d evaluations=%d distinct=%d known=%s unlisted=%d wall=%.1fs kernel=%s"
              % (pid, tier, seed, evidence["coverage"]["evaluations"],
                 evidence["coverage"]["distinct_nontrivial"],
                 evidence["coverage"]["known_findings_observed"], len(unknown), wall,
                 stage_info.get("kernel_route")))
        if unknown:
            rc = 1
        elif inconclusive:
            for r in inconclusive[:5]:
                print("INCONCLUSIVE property=%s reason=%s" % (pid, str(r)[:1500]))
            rc = 2
        else:
            print("HELD property=%s on everything explored" % pid)
            rc = 0
    finally:
        if not a.keep:
            shutil.rmtree(work, ignore_errors=True)
        else:
            print("kept", work)
    return rc


if __name__ == "__main__":
    sys.exit(main())
