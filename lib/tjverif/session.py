"""Sampler sessions: build a tagged problem, run the real rejection samplers under a recording
generator, and check the recorded history offline (C02 acceptance rule, C03 linear draws,
C06 log-prob bookkeeping, C14 iterative sampler)."""
import os

import numpy as np

from . import gen, oracle, recgen


class Problem:
    pass


def make_problem(rng, N=None, profile=None, n_offsets=None, poly_trend=None, kkind=None, tmpdir=None, lib_units=None,
                 t_ref_kind=None):
    """A data set + prior + tagged library. Surveys (if any) are chronological and passed as a list, so the
    known survey-label defect cannot interfere with what these checks decide."""
    pb = Problem()
    profile = profile or str(rng.choice(["moderate", "flat", "spike", "moderate", "sharp"]))
    n_off = int(rng.choice([0, 1, 2], p=[.7, .2, .1])) if n_offsets is None else n_offsets
    nep = int(rng.choice([3, 4, 6, 9, 14]))
    if profile == "flat":
        es = float(10 ** rng.uniform(1.5, 2.5))
    elif profile == "spike":
        es = float(10 ** rng.uniform(-2, -1.3))
    elif profile == "sharp":
        es = float(10 ** rng.uniform(-1.3, -0.5))
    else:
        es = float(10 ** rng.uniform(-0.3, 0.7))
    sig = dict(P=float(10 ** rng.uniform(0.3, 2)), K=float(10 ** rng.uniform(0.5, 1.3)),
               v0=float(rng.normal() * 10), phase=float(rng.uniform(0, 6.28)))
    dspec = gen.gen_data_spec(rng, n_surveys=n_off + 1, n_epochs=max(nep, n_off + 1), layout="disjoint",
                              err_scale=es, signal=sig, unit=str(rng.choice(["km/s", "m/s"], p=[.8, .2])),
                              t_ref_kind=t_ref_kind if n_off == 0 else None)
    if n_off:
        dspec["form"] = "list"
        dspec["keys"] = None
        if n_off <= 3 and rng.random() < 0.3:
            # a dict whose keys are in sorted order as inserted (surveys are chronological): the code's column assignment
            # (rank of the key among the sorted keys) is then the identity, exactly as for a list - and the known label defect
            # cannot occur. Keys are names or integers that are not 0..n-1.
            pool_ = [["apogee", "lamost", "sdss5", "weave"], [3, 7, 12, 40], ["s1", "s10", "s2", "s3"]][int(rng.integers(0, 3))]
            dspec["form"] = "dict"
            dspec["keys"] = sorted(pool_)[:n_off + 1]
    ps = gen.gen_prior_spec(rng, dspec["unit"], n_offsets=n_off, poly_trend=poly_trend if poly_trend is not None
                            else int(rng.choice([1, 2, 3], p=[.6, .3, .1])), kkind=kkind)
    if N is None:
        N = int(rng.choice([1, 2, 5, 30, 200, 1000, 5000], p=[.05, .05, .1, .2, .3, .2, .1]))
    rows = gen.gen_rows(rng, N, dspec, e_class="mild", s_scale="zero" if rng.random() < 0.5 else None)
    if profile in ("spike", "sharp") and N >= 1:
        # plant the generating orbit (circular) as one row
        t_all, _, _, _, t_ref = gen.merged(dspec)
        base = None
        k = int(rng.integers(0, N))
        rows["e"][k] = 0.0
        rows["omega"][k] = 0.0
        rows["P"][k] = sig["P"] * (1 + k * 1e-9)
        rows["P"] = np.array(rows["P"])
        # data signal: K cos(2 pi (t - base)/P + phase) == K cos(2 pi (t - t_ref)/P - M0) with
        rows["M0"][k] = -(2 * np.pi * (t_ref - dspec["base"]) / rows["P"][k] + sig["phase"])
        pb.planted = k
    else:
        pb.planted = None
    # tags: strictly increasing unique periods
    order = np.argsort(rows["P"], kind="stable")
    for kx in rows:
        rows[kx] = np.asarray(rows[kx])[order]
    if pb.planted is not None:
        pb.planted = int(np.where(order == pb.planted)[0][0])
    rows["P"] = rows["P"] * (1 + np.arange(N) * 1e-9)
    for j in range(1, N):
        if rows["P"][j] <= rows["P"][j - 1]:
            rows["P"][j] = np.nextafter(rows["P"][j - 1], np.inf) * (1 + 1e-9)
    pb.dspec, pb.ps, pb.rows, pb.N, pb.profile = dspec, ps, rows, N, profile
    pb.du = dspec["unit"]
    pb.data = gen.build_data(dspec)
    pb.prior = gen.build_prior(ps)
    # library columns: the kernel's internal units (rows can then be compared bitwise), or - when asked for -
    # other equivalent units (comparisons become physical, tolerances widen, see `pb.exact`)
    if lib_units == "random":
        lib_units = {"P": str(rng.choice(["yr", "h"])), "omega": "deg", "M0": "deg",
                     "s": str(rng.choice([u_ for u_ in gen.VEL_UNITS if u_ != pb.du]))}
        for k in list(lib_units):
            if rng.random() < 0.3:
                del lib_units[k]
        if not lib_units:
            lib_units = {"s": "m/s" if pb.du != "m/s" else "km/s"}
    pb.lib_units = dict(lib_units) if lib_units else None
    pb.exact = pb.lib_units is None
    units = {"s": pb.du}
    if pb.lib_units:
        units.update(pb.lib_units)
    # prior-sample libraries may carry a reference epoch of their own (prior.sample(..., t_ref=...) passes it through);
    # it must never replace the data's reference epoch on the samples that come back
    lib_t_ref = None
    if rng.random() < 0.3:
        from astropy.time import Time
        lib_t_ref = Time(float(np.round(rng.uniform(50000, 60000), 2)), format="mjd", scale="tcb")
    pb.lib_t_ref = lib_t_ref
    pb.lib = gen.build_samples(rows, units=units, ln_prior=True, t_ref=lib_t_ref)
    pb.s_seen = pb.lib["s"].to_value(gen.U(pb.du))
    pb.lin = gen.linear_problem(dspec, ps)
    pb.tagP = np.asarray(pb.lib["P"].to_value("d"))
    return pb


def adopt_library(pb, lib):
    """Make `lib` (any JokerSamples with P, e, omega, M0, s) the problem's library: physical row record, tags,
    reference ln_prior."""
    import astropy.units as u
    pb.lib = lib
    pb.N = len(lib)
    pb.lib_units = {"from": "prior.sample"}
    pb.exact = False
    pb.rows = dict(P=np.asarray(lib["P"].to_value(u.day), dtype=float), e=np.asarray(lib["e"], dtype=float),
                   omega=np.asarray(lib["omega"].to_value(u.rad), dtype=float),
                   M0=np.asarray(lib["M0"].to_value(u.rad), dtype=float),
                   s_kms=np.asarray(lib["s"].to_value(u.km / u.s), dtype=float))
    pb.s_seen = lib["s"].to_value(gen.U(pb.du))
    pb.tagP = pb.rows["P"].copy()
    pb.ln_prior_ref = np.asarray(lib["ln_prior"], dtype=float) if "ln_prior" in lib.par_names else None
    pb.planted = None


def tags_of(pb, P_day):
    """Library row numbers of periods (bitwise when the library is in internal units, nearest otherwise).
    Returns (tags, ok) with ok[i] False when P_day[i] is no library row's period."""
    P_day = np.atleast_1d(np.asarray(P_day, dtype=float))
    N = pb.N
    if pb.exact:
        t_ = np.searchsorted(pb.tagP, P_day)
        ok = (t_ < N) & (pb.tagP[np.minimum(t_, N - 1)] == P_day)
        return np.minimum(t_, N - 1), ok
    lt = np.log(pb.tagP)
    t_ = np.array([int(np.argmin(np.abs(lt - np.log(x)))) if x > 0 else 0 for x in P_day], dtype=int)
    ok = np.abs(P_day / pb.tagP[t_] - 1) < 1e-11
    return t_, ok


def lib_file(pb, tmpdir, name="lib.hdf5"):
    path = os.path.join(tmpdir, name)
    pb.lib.write(path, overwrite=True)
    return path


# ---------------------------------------------------------------- likelihood injection
class Inject:
    """Replace the likelihood of chosen library rows *at the input of the rejection code* (the rejection
    code itself stays real). fn(tag_index_array, ll_array) -> ll_array.
    Also logs, for every likelihood evaluation the sampler requests, which library rows it covered."""
    active = None
    tagP = None          # set by the driver: periods of the library rows (tags)
    tagger = None        # optional callable P[day] -> library row numbers (libraries not in internal units)
    EVAL_LOG = []        # list of arrays of library row numbers, one per evaluation call

    @classmethod
    def install(cls):
        import thejoker.likelihood_helpers as lh
        import thejoker.multiproc_helpers as mh
        if getattr(lh.marginal_ln_likelihood_inmem, "__tjv__", False):
            return
        o1 = lh.marginal_ln_likelihood_inmem

        def marginal_ln_likelihood_inmem(joker_helper, prior_samples_batch):
            ll = o1(joker_helper, prior_samples_batch)
            if cls.tagP is not None:
                Pb = np.asarray(prior_samples_batch)[:, 0]
                cls.EVAL_LOG.append(cls.tagger(Pb) if cls.tagger is not None else np.searchsorted(cls.tagP, Pb))
            if cls.active is not None:
                tags = cls.active["tag_of_P"](np.asarray(prior_samples_batch)[:, 0])
                ll = cls.active["fn"](tags, np.array(ll, copy=True))
            return ll
        marginal_ln_likelihood_inmem.__tjv__ = True
        lh.marginal_ln_likelihood_inmem = marginal_ln_likelihood_inmem
        o2 = mh.marginal_ln_likelihood_helper

        def marginal_ln_likelihood_helper(*a, **k):
            ll = o2(*a, **k)
            if cls.tagP is not None:
                _i = k.get("samples_idx")
                if _i is None:
                    _n = k.get("n_prior_samples")
                    _i = np.arange(len(ll) if _n is None else int(_n))
                cls.EVAL_LOG.append(np.asarray(_i))
            if cls.active is not None:
                idx = k.get("samples_idx")
                if idx is None:
                    npr = k.get("n_prior_samples")
                    idx = np.arange(len(ll) if npr is None else int(npr))
                ll = cls.active["fn"](np.asarray(idx), np.array(ll, copy=True))
            return ll
        marginal_ln_likelihood_helper.__tjv__ = True
        mh.marginal_ln_likelihood_helper = marginal_ln_likelihood_helper


def make_injection(rng, pb, kind):
    N = pb.N
    tagP = pb.tagP

    def tag_of_P(P):
        return tags_of(pb, P)[0]
    if kind == "neg-inf":
        bad = set(rng.choice(N, size=max(1, min(N - 1, int(N * rng.uniform(0.05, 0.6)))), replace=False).tolist()) if N > 1 else set()

        def fn(tags, ll):
            m = np.array([t in bad for t in tags])
            ll[m] = -np.inf
            return ll
    elif kind == "flat":
        def fn(tags, ll):
            return np.full(len(ll), -12.5)
    elif kind == "ties":
        def fn(tags, ll):
            return np.round(ll, 0)
    else:
        return None
    return {"fn": fn, "tag_of_P": tag_of_P, "kind": kind}


# ---------------------------------------------------------------- acceptance rule (C02)
def expected_acceptance(ll_eval, u, max_post, border_eps=1e-13):
    with np.errstate(all="ignore"):
        ratio = np.exp(ll_eval - np.max(ll_eval))
    acc = np.where(ratio > u)[0]
    border = int(np.sum(np.abs(ratio - u) < border_eps))
    if max_post is not None:
        acc = acc[:max_post]
    return acc, border, ratio


def check_rejection_history(pb, opts, out, lls_all, events, ll_lib, expect_lls=True):
    """Offline checker of one rejection_sample call. Returns (violations[list of (key,msg)], info dict).
    `ll_lib`: likelihood of every library row (after injection), the checker's reference for row identity."""
    bad = []
    info = {}
    N = pb.N
    n_prior = opts.get("n_prior_samples") if not opts["in_memory"] else None
    randomize = bool(opts.get("randomize_prior_order")) and not opts["in_memory"]
    n_eval = N if n_prior is None else int(n_prior)
    choices = [e for e in events if e["op"] == "choice" and e["gen"] == "parent"]
    unis = [e for e in events if e["op"] == "uniform" and e["gen"] == "parent"]
    idx_inmem = None
    if opts["in_memory"] and (opts.get("randomize_prior_order") or opts.get("n_prior_samples")):
        # documented as file options: in memory they may be ignored (all rows, library order) or honoured;
        # if an ordering draw was made, follow it (a shuffled 2-D array names its rows through the period tags)
        perms = [e for e in events if e["op"] in ("permutation", "choice", "shuffle") and e["gen"] == "parent"]
        if len(perms) == 1:
            res = np.asarray(perms[0]["result"])
            if res.ndim == 2:
                tg, okk = tags_of(pb, res[:, 0])
                idx_inmem = tg if np.all(okk) else None
            elif res.ndim == 1 and res.dtype.kind in "iu":
                idx_inmem = res.astype(int)
            if idx_inmem is None:
                return [("inconclusive-pattern", "in-memory ordering draw not understood")], info
        elif len(perms) > 1:
            return [("inconclusive-pattern", "several ordering draws in memory")], info
        if len(unis) == 1:
            n_eval = int(np.size(unis[0]["result"]))
            if idx_inmem is not None:
                idx_inmem = idx_inmem[:n_eval]
    if idx_inmem is not None:
        idx = idx_inmem
        if len(idx) != n_eval or len(np.unique(idx)) != len(idx) or idx.min() < 0 or idx.max() >= N:
            bad.append(("evaluation-order-invalid", "in-memory evaluation order repeats or leaves the library"))
            return bad, info
    elif randomize:
        if len(choices) != 1 or len(np.atleast_1d(choices[0]["result"])) != n_eval:
            return [("inconclusive-pattern", "expected one choice() of %d rows, saw %d" % (n_eval, len(choices)))], info
        idx = np.asarray(choices[0]["result"], dtype=int)
        if len(np.unique(idx)) != len(idx) or idx.min() < 0 or idx.max() >= N:
            bad.append(("evaluation-order-invalid", "shuffled evaluation order repeats or leaves the library"))
            return bad, info
        if np.isscalar(choices[0].get("a")) and int(choices[0]["a"]) != N:
            bad.append(("shuffle-not-over-whole-library", "randomize_prior_order drew its %d rows from the first %s rows, "
                        "the library has %d" % (n_eval, choices[0]["a"], N)))
    elif idx_inmem is None:
        idx = np.arange(n_eval)
    if len(unis) == 1 and np.size(unis[0]["result"]) != n_eval and not opts["in_memory"]:
        # one uniform per evaluated sample: another count means another number of rows was evaluated than the
        # library size / n_prior_samples prescribes
        return [("evaluated-count-differs", "%d prior samples were evaluated (one uniform each), the request prescribes %d "
                 "(library %d, n_prior_samples=%r)" % (np.size(unis[0]["result"]), n_eval, N, opts.get("n_prior_samples")))], info
    if len(unis) != 1 or np.size(unis[0]["result"]) != n_eval:
        return [("inconclusive-pattern", "expected one uniform(size=%d) draw from the sampler's generator, saw %s"
                 % (n_eval, [np.size(e["result"]) for e in unis]))], info
    u = np.asarray(unis[0]["result"], dtype=float).ravel()
    if unis[0]["low"] != 0.0 or unis[0]["high"] != 1.0:
        bad.append(("uniform-range", "acceptance uniforms drawn on [%r,%r)" % (unis[0]["low"], unis[0]["high"])))
    if randomize and choices[0]["seq"] > unis[0]["seq"]:
        bad.append(("order-of-draws", "evaluation order drawn after the acceptance uniforms"))
    ll_eval = ll_lib[idx]
    if lls_all is not None:
        la = np.asarray(lls_all, dtype=float)
        if la.shape != ll_eval.shape:
            bad.append(("all-logprobs-shape", "second return value has %r entries for %d evaluated rows" % (la.shape, n_eval)))
        elif not (np.array_equal(la, ll_eval, equal_nan=True) if pb.exact else
                  np.allclose(la, ll_eval, rtol=1e-7, atol=1e-7, equal_nan=True)):
            k = int(np.argmax(~(np.isclose(la, ll_eval, rtol=0 if pb.exact else 1e-7, atol=0 if pb.exact else 1e-7) | (np.isnan(la) & np.isnan(ll_eval)))))
            bad.append(("all-logprobs-order", "all-logprobs[%d]=%r but the likelihood of the row evaluated there (library row %d) is %r"
                        % (k, la[k], idx[k], ll_eval[k])))
        ll_used = la if la.shape == ll_eval.shape else ll_eval
    else:
        ll_used = ll_eval
    max_post = opts.get("max_posterior_samples")
    acc, border, ratio = expected_acceptance(ll_used, u, max_post, 1e-13 if pb.exact else 1e-6)
    info.update(n_eval=n_eval, n_accept=len(acc), borderline=border, idx=idx, acc=acc, u=u, ll_eval=ll_used)
    if border:
        return [("borderline", "uniform within 1e-13 of the acceptance ratio")], info
    nlin = int(opts.get("n_linear_samples", 1))
    want_tags = np.repeat(idx[acc], nlin)
    got_P = np.asarray(out["P"].to_value("d"), dtype=float)
    got_tags, ok_member = tags_of(pb, got_P)
    if not np.all(ok_member):
        bad.append(("row-invented", "a returned period is not the period of any library row"))
        return bad, info
    if len(got_tags) != len(want_tags) or not np.array_equal(got_tags, want_tags):
        # sub-classify
        ws, gs = set(idx[acc].tolist()), set(got_tags.tolist())
        if len(got_tags) != len(want_tags) and gs == ws:
            key = "wrong-multiplicity"
        elif gs == ws:
            key = "wrong-order"
        elif not gs <= set(idx.tolist()):
            key = "row-not-evaluated"
        elif max_post is not None and len(gs) == len(ws):
            key = "wrong-truncation"
        else:
            key = "wrong-accepted-set"
        bad.append((key, "returned rows (library indices) %s..., rule gives %s... (%d vs %d rows; n_eval=%d, accepted=%d)"
                    % (got_tags[:8].tolist(), want_tags[:8].tolist(), len(got_tags), len(want_tags), n_eval, len(acc))))
        info["row_tags"] = got_tags
        return bad, info
    info["row_tags"] = got_tags
    # nonlinear parameters must be the library row, bitwise (library is in internal units)
    for name, unit in (("P", "d"), ("e", ""), ("omega", "rad"), ("M0", "rad"), ("s", pb.du)):
        col = out[name]
        got = np.asarray(col.to_value(gen.U(unit)) if unit else getattr(col, "value", col), dtype=float)
        want = np.asarray(pb.lib[name].to_value(gen.U(unit)) if unit else pb.lib[name].value, dtype=float)[got_tags]
        same = np.array_equal(got, want) if pb.exact else np.allclose(got, want, rtol=1e-11, atol=1e-11)
        if not same:
            bad.append(("row-modified", "column %s of a returned row differs from its library row" % name))
            break
    # best sample always survives (unless truncated away)
    if len(acc) and (max_post is None or len(acc) < max_post or True):
        best = int(np.argmax(ll_used))
        if (max_post is None or best <= acc[-1]) and best not in set(acc.tolist()):
            bad.append(("best-sample-lost", "the maximum-likelihood row was not accepted"))
    return bad, info


# ---------------------------------------------------------------- linear draws (C03)
def check_linear_draws(pb, opts, out, info, events, worker_events=None):
    """Every accepted row must come with one multivariate_normal(a, A, size=n_linear) call whose arguments
    are the exact conditional posterior and whose variates are the emitted linear columns."""
    import astropy.units as u
    bad = []
    nlin = int(opts.get("n_linear_samples", 1))
    tags = info["idx"][info["acc"]]
    mv = [e for e in events if e["op"] == "multivariate_normal"]
    if worker_events:
        mv = mv + [e for e in worker_events if e["op"] == "multivariate_normal"]
    stats = dict(draw_calls=len(mv), rows=len(tags))
    if len(mv) != len(tags):
        return [("inconclusive-pattern", "%d multivariate_normal calls for %d accepted rows" % (len(mv), len(tags)))], stats
    L = pb.lin.L
    names = ["K", "v0"] + ["dv0_%d" % k for k in range(1, pb.ps["n_offsets"] + 1)] + \
            ["v%d" % i for i in range(1, pb.ps["poly_trend"])]
    units = [gen.U(pb.du)] * (2 + pb.ps["n_offsets"]) + [gen.U(pb.du) / u.day ** i for i in range(1, pb.ps["poly_trend"])]
    cols = []
    for nm, un in zip(names, units):
        if nm not in out.par_names:
            return [("linear-column-missing", "column %s missing from the output" % nm)], stats
        if not out[nm].unit.is_equivalent(un):
            return [("linear-column-unit", "column %s has unit %s" % (nm, out[nm].unit))], stats
        cols.append(np.asarray(out[nm].to_value(un), dtype=float))
    emitted = np.stack(cols, axis=1)
    worst = 0.0
    for k, (tag, e) in enumerate(zip(tags, mv)):
        row = {n_: float(pb.rows[n_][tag]) for n_ in ("P", "e", "omega", "M0")}
        z = oracle.z_column(pb.lin, pb.tagP[tag], row["e"], row["omega"], row["M0"], "c")
        ref = oracle.marginal(pb.lin, z, pb.tagP[tag], row["e"], pb.s_seen[tag], want_post=True)
        mean, cov = np.asarray(e["mean"], float), np.asarray(e["cov"], float)
        if mean.shape != (L,) or cov.shape != (L, L):
            bad.append(("draw-shape", "mean/cov shapes %r %r for %d linear parameters" % (mean.shape, cov.shape, L)))
            break
        sz = e["size"]
        if (sz if np.isscalar(sz) else (sz[0] if sz else None)) != nlin:
            bad.append(("draw-count", "size=%r draws requested for n_linear_samples=%d" % (sz, nlin)))
        cnd = max(ref["condAinv"], 1.0)
        sd = np.sqrt(np.abs(np.diag(ref["A"])))
        # relative to the posterior width; round-off of the kernel's inverse ~ cond * eps
        tolm = 1e-9 + 256 * oracle.EPS * cnd + (0.0 if pb.exact else 1e-7)
        dm = np.max(np.abs(mean - ref["a"]) / np.maximum(sd, 1e-300))
        dc = np.max(np.abs(cov - ref["A"]) / np.outer(sd, sd))
        worst = max(worst, dm / tolm, dc / tolm)
        if tolm < 1e-3 and (dm > tolm or dc > tolm):
            key = "draw-covariance-wrong" if dc > tolm else "draw-mean-wrong"
            bad.append((key, "row %d (library %d): multivariate_normal mean/cov differ from (a, A): "
                        "max |dmean|/sd=%.3g, max |dcov|/(sd sd)=%.3g (allowed %.3g); cov[0,0]=%.6g vs A[0,0]=%.6g"
                        % (k, tag, dm, dc, tolm, cov[0, 0], ref["A"][0, 0])))
            break
        res = np.asarray(e["result"], float).reshape(-1, L)
        blk = emitted[k * nlin:(k + 1) * nlin]
        if res.shape != blk.shape or not np.array_equal(res, blk):
            bad.append(("draw-not-emitted", "row %d: the linear columns are not the variates the generator returned "
                        "(order/unit/row mix-up)" % k))
            break
    stats["worst_ratio"] = worst
    return bad, stats


# ---------------------------------------------------------------- log-prob bookkeeping (C06)
def check_logprob_columns(pb, opts, out, row_tags, ll_lib):
    bad = []
    for name in ("ln_prior", "ln_likelihood"):
        if name not in out.par_names:
            bad.append(("logprob-column-missing", "%s missing although return_logprobs=True" % name))
            return bad
        col = out.tbl[name]
        arr = np.asarray(getattr(col, "value", col))
        if arr.dtype.kind != "f" or arr.dtype.names is not None or arr.ndim != 1:
            bad.append(("logprob-not-float", "%s column has dtype %s shape %r (not plain floating-point scalars)"
                        % (name, arr.dtype, arr.shape)))
            return bad
    lp = np.asarray(out.tbl["ln_prior"], dtype=float)
    lk = np.asarray(out.tbl["ln_likelihood"], dtype=float)
    if len(lp) != len(row_tags) or len(lk) != len(row_tags):
        bad.append(("logprob-length", "log-prob columns have %d/%d entries for %d rows" % (len(lp), len(lk), len(row_tags))))
        return bad
    ref = getattr(pb, "ln_prior_ref", None)
    want_lp = -(row_tags + 0.5) if ref is None else ref[row_tags]
    if not np.array_equal(lp, want_lp):
        k = int(np.argmax(lp != want_lp))
        bad.append(("ln_prior-misattributed", "row %d is library row %d (ln_prior %.1f) but carries ln_prior %r"
                    % (k, row_tags[k], want_lp[k], lp[k])))
    want_lk = ll_lib[row_tags]
    if not np.array_equal(lk, want_lk, equal_nan=True):
        k = int(np.argmax(lk != want_lk))
        bad.append(("ln_likelihood-misattributed", "row %d is library row %d (ln_likelihood %r) but carries %r"
                    % (k, row_tags[k], want_lk[k], lk[k])))
    return bad


# ---------------------------------------------------------------- one monitored rejection_sample call
def snapshot_inputs(pb):
    """Bit patterns of what the caller hands over: the library table and the data arrays."""
    snap = {"lib:" + k: np.array(getattr(pb.lib[k], "value", pb.lib[k]), copy=True).tobytes() for k in pb.lib.par_names}
    datas = pb.data if isinstance(pb.data, (list, tuple)) else list(pb.data.values()) if isinstance(pb.data, dict) else [pb.data]
    for j, d in enumerate(datas):
        snap["data%d:t" % j] = np.array(d._t_bmjd, copy=True).tobytes()
        snap["data%d:rv" % j] = np.array(d.rv.value, copy=True).tobytes()
        snap["data%d:err" % j] = np.array(d.rv_err.value, copy=True).tobytes()
    return snap


def inputs_changed(pb, snap):
    """Names of caller-owned arrays that no longer have the bit pattern they had before the call."""
    now = snapshot_inputs(pb)
    return sorted(k for k in snap if now.get(k) != snap[k]) + sorted(k for k in now if k not in snap)


def dress_counts(rng, opts, desc=None):
    """The same request with its integer-valued options as numpy integers (what `len(x) // 2` on arrays or
    `np.sum(mask)` hand to the API) in a quarter of the sessions; the checkers keep reading the plain `opts`."""
    if rng.random() >= 0.25:
        return opts
    out = dict(opts)
    for k in ("n_prior_samples", "max_posterior_samples", "n_batches", "n_linear_samples", "n_requested_samples",
              "max_prior_samples", "init_batch_size"):
        if isinstance(out.get(k), int) and not isinstance(out.get(k), bool):
            out[k] = np.int64(out[k]) if rng.random() < 0.7 else np.int32(out[k])
    if isinstance(out.get("growth_factor"), int) and rng.random() < 0.5:
        out["growth_factor"] = np.int64(out["growth_factor"])      # documented as int: a float is not part of the domain
    if out.get("randomize_prior_order") is True:
        # a truthy flag that is not the singleton True (what `n_use < n_total` on numpy values produces)
        out["randomize_prior_order"] = np.bool_(True) if rng.random() < 0.7 else 1
    if desc is not None:
        desc["numpy_integer_options"] = True
    return out


def one_session(ctx, i, rng, return_logprobs=False, force=None, problem_kw=None, exc_classifier=None, inject=None):
    from thejoker import TheJoker
    kw_ = dict(problem_kw or {})
    if "lib_units" not in kw_ and rng.random() < 0.3:
        # a library stored in other (equivalent) units: only on moderately informative data, where one-ulp
        # conversion differences cannot move a likelihood by more than the widened tolerances
        kw_["lib_units"] = "random"
        if kw_.get("profile") not in ("flat", "moderate"):
            kw_["profile"] = str(rng.choice(["flat", "moderate"]))
    pb = make_problem(rng, **kw_)
    N = pb.N
    in_memory = bool(rng.random() < 0.45)
    as_file = (not in_memory) and bool(rng.random() < 0.5)
    seed = int(rng.integers(0, 2 ** 31))
    as_int = False
    if rng.random() < 0.12 and inject in (None, "none"):
        # prior samples requested by COUNT: the sampler draws its own library from its generator. The same library
        # is reproduced here from an identically seeded generator, so every monitor applies to this entry point too.
        as_int, as_file = True, False
        N = int(rng.choice([20, 100, 400]))
        adopt_library(pb, pb.prior.sample(size=N, return_logprobs=bool(return_logprobs),
                                          rng=np.random.Generator(np.random.PCG64(seed))))
    opts = dict(in_memory=in_memory, n_linear_samples=int(rng.choice([1, 1, 3])))
    trunc = str(rng.choice(["none", "one", "k", "more"], p=[.4, .15, .3, .15]))
    if in_memory and rng.random() < 0.3:
        # file options passed in memory as well: ignored or honoured, the bookkeeping must stay right either way
        opts["randomize_prior_order"] = True
    if not in_memory:
        if rng.random() < 0.5:
            opts["randomize_prior_order"] = True
        if rng.random() < 0.4 and N > 1:
            opts["n_prior_samples"] = int(rng.integers(1, N + 1))
        if rng.random() < 0.6:
            # every batch re-opens the HDF5 file: keep the batch count moderate for big libraries
            opts["n_batches"] = int(rng.choice([1, 2, 3, 7, max(1, N - 1), N, N + 5] if N <= 200 else [1, 2, 3, 7, 16]))
    inj_kind = str(rng.choice(["none", "none", "neg-inf", "flat", "ties"]))
    if inject is not None:
        inj_kind = inject
    if as_int:
        inj_kind = "none"
    if N == 1 and inj_kind == "neg-inf":
        inj_kind = "none"
    inj = make_injection(rng, pb, inj_kind)
    if not as_int and N >= 4 and inj_kind == "none" and rng.random() < 0.2:
        # rows whose likelihood is *really* -inf (a jitter so large that s^2 overflows): produced by the kernel itself, not
        # injected at the input of the rejection code - whatever happens to non-finite values on the way there is exercised
        rows_nf = rng.choice(N, size=int(rng.integers(1, 4)), replace=False)
        sv_ = np.array(pb.lib["s"].value, dtype=float, copy=True)
        sv_[rows_nf] = 1e160
        pb.lib["s"] = sv_ * pb.lib["s"].unit
        pb.s_seen = pb.lib["s"].to_value(gen.U(pb.du))
        pb.rows["s_kms"] = np.asarray(pb.lib["s"].to_value("km/s"), dtype=float)
        real_nf = [int(x) for x in rows_nf]
    else:
        real_nf = []
    # reference likelihood of every library row
    ll_lib = np.asarray(TheJoker(pb.prior).marginal_ln_likelihood(pb.data, pb.lib, in_memory=True), dtype=float)
    if inj is not None:
        ll_lib = inj["fn"](np.arange(N), ll_lib.copy())
    n_eval = opts.get("n_prior_samples", N)
    if trunc == "one":
        opts["max_posterior_samples"] = 1
    elif trunc == "k":
        opts["max_posterior_samples"] = int(rng.integers(1, max(2, n_eval // 3 + 2)))
    elif trunc == "more":
        opts["max_posterior_samples"] = n_eval + 7
    if return_logprobs:
        opts["return_logprobs"] = True
    if force:
        opts.update(force)
    desc = dict(index=i, N=N, profile=pb.profile, injected=inj_kind, opts=dict(opts), as_file=as_file, seed=seed,
                library_by_count=as_int, rows_with_overflowing_jitter=real_nf,
                n_epochs=len(pb.lin.t), poly_trend=pb.ps["poly_trend"], n_offsets=pb.ps["n_offsets"],
                lib_units=pb.lib_units)
    recgen.reset()
    g = recgen.make(seed)
    joker = TheJoker(pb.prior, rng=g, tempfile_path=ctx.tmpdir)
    # one file name, re-used by every session (the stored units vary from session to session)
    lib_arg = lib_file(pb, ctx.tmpdir, "library.hdf5") if as_file else (N if as_int else pb.lib)
    Inject.active = inj
    snap = snapshot_inputs(pb)
    try:
        out, lls = joker.rejection_sample(pb.data, lib_arg, return_all_logprobs=True, **dress_counts(rng, opts, desc))
    except Exception as e:
        Inject.active = None
        # out of scope: every *evaluated* row had a non-finite likelihood (the property needs one finite value)
        ch = [ev for ev in recgen.EVENTS if ev["op"] == "choice"]
        ne = opts.get("n_prior_samples", N) if not in_memory else N
        idx = np.asarray(ch[0]["result"], dtype=int) if ch else np.arange(ne)
        if not np.any(np.isfinite(ll_lib[idx])):
            ctx.count("skipped_no_finite_likelihood_evaluated")
            return None
        ctx.exception(e, "rejection_sample", desc, key=exc_classifier(e, opts) if exc_classifier else "raises")
        return None
    finally:
        Inject.active = None
        if as_file and isinstance(lib_arg, str):
            import os
            os.unlink(lib_arg)
    events = list(recgen.EVENTS)
    bad, info = check_rejection_history(pb, opts, out, lls, events, ll_lib)
    changed = inputs_changed(pb, snap)
    if changed:
        bad = list(bad) + [("caller-input-modified", "rejection_sample changed arrays that belong to the caller: %s" % changed)]
    return pb, opts, out, lls, events, ll_lib, bad, info, desc, inj_kind, trunc, as_file




# ---------------------------------------------------------------- iterative sampler (C14)
def check_iterative_history(pb, opts, ret, events, ll_lib, eval_log):
    """Offline checker of one iterative_rejection_sample call that returned `ret`."""
    from thejoker import JokerSamples
    bad, info = [], {}
    N = pb.N
    if not isinstance(ret, JokerSamples):
        key = "returned-exception-instance" if isinstance(ret, BaseException) else "returned-non-samples"
        return [(key, "iterative_rejection_sample returned %r instead of a JokerSamples" % (ret,))], info
    n_req = int(opts["n_requested_samples"])
    nlin = int(opts.get("n_linear_samples", 1))
    in_memory = opts["in_memory"]
    budget = N if in_memory or opts.get("max_prior_samples") is None else min(int(opts["max_prior_samples"]), N)
    randomize = bool(opts.get("randomize_prior_order")) and not in_memory
    choices = [e for e in events if e["op"] == "choice" and e["gen"] == "parent"]
    unis = [e for e in events if e["op"] == "uniform" and e["gen"] == "parent"]
    # what the sampler asked the likelihood code to evaluate
    ev = np.concatenate([np.asarray(x, dtype=int) for x in eval_log]) if eval_log else np.array([], dtype=int)
    # ---- monitors that do not depend on how the uniforms were drawn
    from thejoker import JokerSamples as _JS
    if isinstance(ret, _JS) and len(ev):
        gp = np.asarray(ret["P"].to_value("d"), dtype=float)
        tg, okm = tags_of(pb, gp)
        if np.all(okm):
            evset = set(ev.tolist())
            if not set(tg.tolist()) <= evset:
                bad.append(("row-not-evaluated", "a returned row was never evaluated"))
            else:
                with np.errstate(all="ignore"):
                    mx = np.max(ll_lib[ev])
                    ratio_ret = np.exp(ll_lib[tg] - mx)
                # under the rule a row survives with probability L_i / L_max(all evaluated): a returned row whose
                # ratio is below 1e-9 is a rule violation with false-alarm probability < 1e-9 per row
                if np.isfinite(mx) and np.any(ratio_ret < 1e-9):
                    k = int(np.argmin(ratio_ret))
                    bad.append(("accepted-against-stale-maximum", "returned library row %d has L/L_max = %.3g against the maximum "
                                "over all %d evaluated samples: it cannot have passed exp(ll - max) > u"
                                % (int(tg[k]), float(ratio_ret[k]), len(ev))))
                if np.isfinite(mx) and len(tg) and int(ev[int(np.argmax(ll_lib[ev]))]) not in set(tg.tolist()) \
                        and len(set(tg.tolist())) < int(opts["n_requested_samples"]):
                    bad.append(("best-sample-lost", "the maximum-likelihood evaluated row is not among the returned rows although "
                                "fewer than n_requested_samples were returned"))
    if len(ev) > budget:
        bad.append(("budget-exceeded", "evaluated %d prior samples, budget is %d (max_prior_samples=%r, library %d)"
                    % (len(ev), budget, opts.get("max_prior_samples"), N)))
    if len(np.unique(ev)) != len(ev):
        bad.append(("row-evaluated-twice", "a library row was evaluated more than once"))
    if randomize:
        if len(choices) != 1:
            return bad + [("inconclusive-pattern", "expected one choice(), saw %d" % len(choices))], info
        all_idx = np.asarray(choices[0]["result"], dtype=int)
        if len(np.unique(all_idx)) != len(all_idx) or (len(all_idx) and (all_idx.min() < 0 or all_idx.max() >= N)):
            bad.append(("evaluation-order-invalid", "shuffled order repeats or leaves the library"))
            return bad, info
    else:
        all_idx = np.arange(budget)
    if not unis:
        return bad + [("inconclusive-pattern", "no uniform draws recorded")], info
    sizes = [int(np.size(e["result"])) for e in unis]
    if any(b <= a for a, b in zip(sizes, sizes[1:])):
        return bad + [("inconclusive-pattern", "uniform draw sizes %r are not cumulative per iteration" % sizes)], info
    total = sizes[-1]
    info.update(iterations=len(sizes), evaluated=total, budget=budget)
    if len(ev) and (ev.min() < 0 or ev.max() >= N):
        bad.append(("row-out-of-library", "evaluation requested rows outside the library"))
    if len(ev) != total:
        return bad + [("inconclusive-pattern", "evaluated %d rows but the last acceptance draw has %d uniforms" % (len(ev), total))], info
    if total > len(all_idx) or not np.array_equal(ev, all_idx[:total]):
        if not bad:
            bad.append(("evaluation-order", "rows were not evaluated in the (shuffled) library order"))
        if total > len(all_idx):
            return bad, info
    u = np.asarray(unis[-1]["result"], dtype=float).ravel()
    ll_eval = ll_lib[ev]
    acc, border, ratio = expected_acceptance(ll_eval, u, None, 1e-13 if pb.exact else 1e-6)
    if border:
        return [("borderline", "uniform within 1e-13 of the acceptance ratio")], info
    want = ev[acc[:n_req]]
    info.update(n_accept_last=len(acc), u=u, ev=ev)
    got_P = np.asarray(ret["P"].to_value("d"), dtype=float)
    tags, okm = tags_of(pb, got_P)
    if not np.all(okm):
        bad.append(("row-invented", "a returned period is not any library row's period"))
        return bad, info
    info["row_tags"] = tags
    if len(tags) > n_req * nlin:
        bad.append(("more-than-requested", "returned %d rows for n_requested_samples=%d x n_linear_samples=%d"
                    % (len(tags), n_req, nlin)))
    if len(acc) >= n_req and len(tags) != n_req * nlin:
        bad.append(("fewer-than-available", "%d evaluated samples pass but %d rows (not %d) were returned"
                    % (len(acc), len(tags), n_req * nlin)))
    if not set(tags.tolist()) <= set(ev.tolist()):
        bad.append(("row-not-evaluated", "a returned row was never evaluated"))
    wt = np.repeat(want, nlin)
    if len(tags) != len(wt) or not np.array_equal(tags, wt):
        if not bad:
            accset = set(ev[acc].tolist())
            key = "row-not-accepted-by-rule" if not set(tags.tolist()) <= accset else "wrong-selection-or-order"
            bad.append((key, "returned library rows %s..., rule on the last iteration's uniforms gives %s... "
                        "(evaluated %d, passing %d, requested %d)" % (tags[:8].tolist(), wt[:8].tolist(), total, len(acc), n_req)))
        return bad, info
    for name, unit in (("P", "d"), ("e", ""), ("omega", "rad"), ("M0", "rad"), ("s", pb.du)):
        col = ret[name]
        got = np.asarray(col.to_value(gen.U(unit)) if unit else getattr(col, "value", col), dtype=float)
        wantc = np.asarray(pb.lib[name].to_value(gen.U(unit)) if unit else pb.lib[name].value, dtype=float)[tags]
        if not (np.array_equal(got, wantc) if pb.exact else np.allclose(got, wantc, rtol=1e-11, atol=1e-11)):
            bad.append(("row-modified", "column %s of a returned row differs from its library row" % name))
            break
    return bad, info


def iterative_session(ctx, i, rng, return_logprobs=False, problem_kw=None):
    from thejoker import TheJoker
    kw = dict(problem_kw or {})
    kw.setdefault("N", int(rng.choice([50, 200, 1000, 5000, 20000], p=[.2, .3, .3, .15, .05])))
    kw.setdefault("profile", str(rng.choice(["flat", "moderate", "sharp", "spike"], p=[.3, .4, .2, .1])))
    if "lib_units" not in kw and rng.random() < 0.25:
        kw["lib_units"] = "random"
        if kw["profile"] not in ("flat", "moderate"):
            kw["profile"] = "moderate"
    pb = make_problem(rng, **kw)
    N = pb.N
    in_memory = bool(rng.random() < 0.45)
    as_file = (not in_memory) and bool(rng.random() < 0.5)
    n_req = int(rng.choice([1, 2, 5, 20, 60, 200]))
    multi = rng.random() < 0.45          # aim at runs that need several iterations
    opts = dict(in_memory=in_memory, n_requested_samples=n_req, n_linear_samples=int(rng.choice([1, 1, 2])))
    r = rng.random()
    if multi:
        opts["init_batch_size"] = int(rng.choice([3, 8, 20, 50]))
        opts["n_requested_samples"] = n_req = int(rng.choice([5, 20, 60]))
    elif r < 0.5:
        opts["init_batch_size"] = int(rng.choice([1, 5, 20, 100, 1000, N, N + 1, 3 * N]))
    if rng.random() < 0.5:
        opts["growth_factor"] = int(rng.choice([1, 2, 8, 32, 128]))
    if not in_memory:
        if rng.random() < 0.5:
            opts["randomize_prior_order"] = True
        if rng.random() < 0.5:
            opts["max_prior_samples"] = int(rng.choice([max(1, N // 10), max(1, N // 2), N, N - 1 if N > 1 else 1, N + 7]))
        if rng.random() < 0.4:
            opts["n_batches"] = int(rng.choice([1, 2, 5]))
    if rng.random() < 0.07:
        # a library too small for the first batch together with a budget larger than the library: the request cannot be
        # served and must be refused, whatever the budget says
        in_memory = False
        opts["in_memory"] = False
        opts.pop("growth_factor", None)
        opts["init_batch_size"] = int(rng.choice([N + 1, N + 50, 3 * N]))
        opts["max_prior_samples"] = int(rng.choice([N + 7, 5 * N]))
    elif rng.random() < 0.07:
        # the whole library as the first batch, visited in a random order, as one task: the batch is a permutation of a complete
        # block of rows
        in_memory = False
        opts["in_memory"] = False
        opts.pop("growth_factor", None)
        opts.pop("max_prior_samples", None)
        opts["init_batch_size"] = N
        opts["randomize_prior_order"] = True
        if rng.random() < 0.7:
            opts["n_batches"] = 1
        else:
            opts.pop("n_batches", None)
    if return_logprobs:
        opts["return_logprobs"] = True
    inj_kind = str(rng.choice(["none", "none", "none", "neg-inf", "ties"]))
    inj = make_injection(rng, pb, inj_kind)
    ll_lib = np.asarray(TheJoker(pb.prior).marginal_ln_likelihood(pb.data, pb.lib, in_memory=True), dtype=float)
    if inj is not None:
        ll_lib = inj["fn"](np.arange(N), ll_lib.copy())
    seed = int(rng.integers(0, 2 ** 31))
    desc = dict(index=i, N=N, profile=pb.profile, injected=inj_kind, opts=dict(opts), as_file=as_file, seed=seed,
                lib_units=pb.lib_units)
    recgen.reset()
    g = recgen.make(seed)
    joker = TheJoker(pb.prior, rng=g, tempfile_path=ctx.tmpdir)
    lib_arg = lib_file(pb, ctx.tmpdir, "library.hdf5") if as_file else pb.lib
    Inject.active = inj
    Inject.tagP = pb.tagP
    Inject.tagger = (lambda P_: tags_of(pb, P_)[0])
    Inject.EVAL_LOG = []
    raised = None
    ret = None
    first_ = int(opts.get("init_batch_size", opts.get("growth_factor", 128) * n_req))
    if opts.get("randomize_prior_order") and 4 <= first_ < N and rng.random() < 0.3:
        # a scripted visiting order (recgen.SCRIPT): the first batch has its smallest row first and its largest last, len - 1
        # apart, with a shuffled interior - it "looks like" one ascending block to anything that only checks the end points
        srng = np.random.default_rng(int(rng.integers(0, 2 ** 31)))

        def _order(a, size, first_=first_, srng=srng):
            lo = int(srng.integers(0, a - first_ + 1))
            blk = np.arange(lo, lo + first_)
            mid = srng.permutation(blk[1:-1])
            if len(mid) > 1 and np.all(np.diff(mid) > 0):
                mid = mid[::-1]
            head = np.concatenate([[blk[0]], mid, [blk[-1]]])
            rest = srng.permutation(np.setdiff1d(np.arange(a), blk))
            return np.concatenate([head, rest])[:size]
        recgen.SCRIPT["order"], recgen.SCRIPT["used"] = _order, 0
        desc["scripted_visiting_order"] = True
    try:
        ret = joker.iterative_rejection_sample(pb.data, lib_arg, **dress_counts(rng, opts, desc))
    except Exception as e:
        raised = e
    finally:
        recgen.SCRIPT["order"] = None
        Inject.active = None
        Inject.tagP = None
        Inject.tagger = None
        if as_file:
            os.unlink(lib_arg)
    events = list(recgen.EVENTS)
    eval_log = list(Inject.EVAL_LOG)
    # the first batch size the call must start with
    first = opts.get("init_batch_size", opts.get("growth_factor", 128) * n_req)
    budget = N if in_memory or opts.get("max_prior_samples") is None else min(int(opts["max_prior_samples"]), N)
    return dict(pb=pb, opts=opts, ret=ret, raised=raised, events=events, eval_log=eval_log, ll_lib=ll_lib, desc=desc,
                first=first, budget=budget, inj_kind=inj_kind, as_file=as_file)
