"""Child entry point: python -m tjverif.shard <driver.py> <ctx.json>.
Loads the driver, hands it a Ctx, writes the Result JSON."""
import importlib.util
import json
import os
import sys
import time
import traceback
import warnings

warnings.filterwarnings("ignore")

deps = os.environ.get("TJV_DEPS")
if deps and deps not in sys.path:
    sys.path.append(deps)      # appended: never shadows /venv's own packages

import numpy as np  # noqa: E402

PROPNUM = lambda pid: int(pid[1:])  # noqa: E731


def jsonable(x, depth=0):
    if depth > 6:
        return str(x)[:200]
    if isinstance(x, dict):
        return {str(k): jsonable(v, depth + 1) for k, v in list(x.items())[:60]}
    if isinstance(x, (list, tuple)):
        return [jsonable(v, depth + 1) for v in list(x)[:60]]
    if isinstance(x, np.ndarray):
        if x.size > 60:
            return {"ndarray_shape": list(x.shape), "head": jsonable(x.ravel()[:20].tolist(), depth + 1)}
        return jsonable(x.tolist(), depth + 1)
    if isinstance(x, (np.integer,)):
        return int(x)
    if isinstance(x, (np.floating, float)):
        x = float(x)
        if x != x or x in (float("inf"), float("-inf")):
            return repr(x)
        return x
    if isinstance(x, (np.bool_, bool)):
        return bool(x)
    if x is None or isinstance(x, (int, str)):
        return x
    return str(x)[:300]


class Ctx:
    def __init__(self, d):
        self.d = d
        self.pid = d["pid"]
        self.seed = int(d.get("seed", 0))
        self.tier = d.get("tier", "quick")
        self.shard = int(d.get("shard", 0))
        self.nshards = int(d.get("nshards", 1))
        self.tmpdir = d["tmpdir"]
        self.variant = d.get("variant", "plain")
        self.replay = d.get("replay")
        self.repo = d.get("repo", "/repo")
        self.t0 = time.time()
        self.evaluations = 0
        self.distinct = set()
        self.distinct_count = 0     # for drivers that enumerate distinct cases by construction
        self.samples = []
        self.counters = {}
        self.maxima = {}
        self.violations = []
        self.borderline = 0
        self.notes = []
        self.inconclusive = None

    # deterministic per-case generator
    def rng(self, *idx):
        return np.random.default_rng([self.seed, PROPNUM(self.pid), self.shard] + [int(i) for i in idx])

    def quick(self):
        return self.tier != "thorough"

    def n(self, quick, thorough):
        """per-shard case budget"""
        return quick if self.quick() else thorough

    def cases(self, n):
        """Indices this shard should run (or only the replayed one)."""
        if self.replay is not None and "case" in self.replay and "index" in self.replay["case"]:
            return [int(self.replay["case"]["index"])]
        return range(n)

    def count(self, name, k=1):
        self.counters[name] = self.counters.get(name, 0) + k

    def maxi(self, name, v):
        v = float(v)
        if v == v:
            self.maxima[name] = max(self.maxima.get(name, float("-inf")), v)

    def sample(self, s, cap=4):
        if len(self.samples) < cap:
            self.samples.append(jsonable(s))

    def violation(self, key, what, case):
        if len(self.violations) < 200:
            self.violations.append({"key": key, "what": str(what)[:600], "case": jsonable(case)})
        self.count("violations_" + key)

    def exception(self, e, what, case, key="raises"):
        """An exception escaped while driving the API: a violation if it travelled through
        thejoker's code, a driver error (=> inconclusive) if it is the harness's own."""
        import traceback as _tb
        frames = _tb.extract_tb(e.__traceback__)
        through = any("/thejoker/" in f.filename for f in frames)
        case = dict(case)
        case["tb"] = "".join(_tb.format_exception(type(e), e, e.__traceback__))[-900:]
        if through:
            self.violation(key, "%s: %r" % (what, e), case)
        else:
            self.inconclusive = "driver error: %s: %r\n%s" % (what, e, case["tb"])
        return through

    def note(self, s):
        if len(self.notes) < 20:
            self.notes.append(str(s)[:400])

    def result(self):
        return {"evaluations": self.evaluations, "distinct": sorted(self.distinct)[:200000], "distinct_count": self.distinct_count,
                "samples": self.samples, "counters": self.counters, "maxima": self.maxima,
                "violations": self.violations, "borderline": self.borderline,
                "notes": self.notes, "inconclusive": self.inconclusive,
                "wall_s": round(time.time() - self.t0, 2)}


def main():
    driver, ctxp = sys.argv[1], sys.argv[2]
    with open(ctxp) as f:
        d = json.load(f)
    ctx = Ctx(d)
    spec = importlib.util.spec_from_file_location("tjv_driver", driver)
    mod = importlib.util.module_from_spec(spec)
    sys.modules["tjv_driver"] = mod
    try:
        spec.loader.exec_module(mod)
        mod.run(ctx)
    except BaseException:
        ctx.inconclusive = "driver crashed: " + traceback.format_exc()[-2500:]
        traceback.print_exc()
    with open(d["out"], "w") as f:
        json.dump(ctx.result(), f, default=str)


if __name__ == "__main__":
    main()
